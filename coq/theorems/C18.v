(* C18 -- board bring-up reaches an in-sync shell for any console timing or times out duly.
   Property theorems only; proofs are in ProofC18.v over the model Boot.v (AskfirstInitializer + LinuxBootLogin).
   The console is ARBITRARY in these theorems: any stages, any fragmentation, any timing.  Times in 2^-10 s. *)
From TV Require Import Base Utf8 Regex Channel ChannelLemmas ProofC06 Hush Session ProofC02 ProofSession ProofC04b ProofLive Boot ProofC18 ProofC18b ProofC18c ProofC18d ProofC18e Sh ProofC01 ProofInit ProofInitRetry ProofC18f ProofLive2 ProofC18g ProofC18h ProofC18i ProofC18j ProofC19 ProofC18k.

(* (1) with a boot timeout T configured, whatever the console does -- trickles, stalls, prints garbage, never shows
       a prompt -- the whole Linux stage (askfirst banner, login, optional delay, password) ends no later than T after
       it began, and it never waits for ever *)
Theorem C18_linux_stage_has_one_deadline :
  forall cfg T sts c r c' sts',
  b_timeout cfg = Some T -> (0 <= T)%Z -> (0 <= b_login_delay cfg)%Z -> (forall n, b_nopw cfg = Some n -> 0 <= n)%Z ->
  slow c = None ->
  bringup cfg sts c = (r, c', sts') ->
  (nowc c' <= nowc c + T)%Z /\ never_blocks r.
Proof. exact bringup_deadline. Qed.
Print Assumptions C18_linux_stage_has_one_deadline.

(* (1b) the login part alone, entered with the timer already running (start = _boot_start set by an earlier stage) *)
Theorem C18_login_respects_a_running_timer :
  forall cfg T start sts c r c' sts',
  b_timeout cfg = Some T -> (0 <= b_login_delay cfg)%Z -> (forall n, b_nopw cfg = Some n -> 0 <= n)%Z ->
  slow c = None -> (nowc c <= start + T)%Z ->
  login_step cfg start sts c = (r, c', sts') ->
  (nowc c' <= start + T)%Z /\ never_blocks r.
Proof. exact login_deadline. Qed.
Print Assumptions C18_login_respects_a_running_timer.

(* (2) the user name is sent only in response to a login prompt: while the wait for the prompt does not return,
       not a byte is sent and the stage does not succeed; and when it returns, what was received ends with the prompt *)
Theorem C18_nothing_sent_without_login_prompt :
  forall cfg start sts c r c' sts',
  login_step cfg start sts c = (r, c', sts') ->
  (forall rem out c1, remaining cfg start c = Some rem -> read_until_prompt (Some (SLit LOGIN_P)) rem c <> (Ret out, c1)) ->
  wr (io c') = wr (io c) /\ r <> BOk.
Proof. exact nothing_sent_without_login_prompt. Qed.
Print Assumptions C18_nothing_sent_without_login_prompt.

Theorem C18_login_prompt_was_received :
  forall rem c out c1,
  wfc c -> read_until_prompt (Some (SLit LOGIN_P)) rem c = (Ret out, c1) ->
  exists data, data <> [] /\ cpend c = data ++ cpend c1 /\ is_suffix LOGIN_P data = true.
Proof. exact login_prompt_was_received. Qed.
Print Assumptions C18_login_prompt_was_received.

(* (3) the U-Boot stage (autoboot intercept, then the prompt poll loop with ^C every second): for an ARBITRARY
       console it ends no later than boot_timeout plus ONE polling interval (2 x 0.5 s) after it began, and never blocks *)
Theorem C18_uboot_stage_deadline :
  forall fuel cfg T sts c r c' sts',
  u_timeout cfg = Some T -> (0 <= T)%Z -> slow c = None ->
  uboot_bringup fuel cfg sts c = (r, c', sts') ->
  (nowc c' <= nowc c + T + 2 * HALF)%Z /\ never_blocks r.
Proof. exact uboot_deadline. Qed.
Print Assumptions C18_uboot_stage_deadline.

(* (2b) the password is sent only in response to a password prompt: on a console where the wait for that prompt
        never returns, the login stage writes at most the Enter after the login delay and the user name *)
Theorem C18_password_only_after_its_prompt :
  forall cfg start sts c r c' sts',
  slow c = None ->
  (forall tmo cx out cy, read_until_prompt (Some (SLit PASSWORD_P)) tmo cx <> (Ret out, cy)) ->
  login_step cfg start sts c = (r, c', sts') ->
  exists pre u, wr (io c') = wr (io c) ++ pre ++ u /\
    (pre = [] \/ pre = [CR]) /\ (u = [] \/ u = utf8_enc (b_user cfg) ++ [CR]).
Proof. exact password_only_after_prompt. Qed.
Print Assumptions C18_password_only_after_its_prompt.

(* (3b) the autoboot keys are sent only in response to the autoboot prompt: while the wait for it does not return,
        nothing is sent and the stage does not succeed *)
Theorem C18_autoboot_keys_only_after_prompt :
  forall fuel cfg sts c r c' sts',
  u_autoboot cfg = true ->
  (forall tmo out c1, read_until_prompt (Some (SRe AUTOBOOT_RE)) tmo c <> (Ret out, c1)) ->
  uboot_bringup fuel cfg sts c = (r, c', sts') ->
  wr (io c') = wr (io c) /\ r <> BOk.
Proof. exact autoboot_keys_only_after_prompt. Qed.
Print Assumptions C18_autoboot_keys_only_after_prompt.

(* (8) liveness of the login (no askfirst banner, no login delay, a password): when the console's output up to the
       login prompt arrives before the boot timeout expires (ready = bytes arriving strictly before the deadline) and
       the reaction to the user name ends with the password prompt and arrives within the password wait
       (no_password_timeout, capped by what is left of the boot timeout), then user name and password are sent --
       exactly these two lines -- and the stage succeeds within the boot timeout: for EVERY fragmentation and timing *)
Theorem C18_login_succeeds_when_the_prompts_arrive_in_time :
  forall cfg c pw (st_user st_pw : stage) (sts : list stage) noise0 noise1,
  b_askfirst cfg = false -> b_login_delay cfg = 0%Z -> b_password cfg = Some pw ->
  match b_timeout cfg with Some T => (0 < T)%Z | None => True end ->
  match b_nopw cfg with Some n => (0 < n)%Z | None => True end ->
  wfc c -> deaths c = [] -> slow c = None ->
  cpend c = noise0 ++ LOGIN_P -> prompt_only_at_end LOGIN_P noise0 ->
  ready (deadline (now (io c)) (b_timeout cfg)) (pend (io c)) = length (cpend c) ->
  any_in (blacklist c) (utf8_enc (b_user cfg) ++ [CR]) = false ->
  any_in (blacklist c) (utf8_enc pw ++ [CR]) = false ->
  wf_pend st_user -> cat st_user = noise1 ++ PASSWORD_P -> prompt_only_at_end PASSWORD_P noise1 ->
  within (match b_nopw cfg, b_timeout cfg with
          | None, None => None
          | None, Some T => Some (now (io c) + T - last_time c)%Z
          | Some n, None => Some n
          | Some n, Some T => Some (Z.min (now (io c) + T - last_time c) n)
          end) st_user ->
  wf_pend st_pw ->
  exists c',
    bringup cfg (st_user :: st_pw :: sts) c = (BOk, c', sts) /\
    wr (io c') = wr (io c) ++ (utf8_enc (b_user cfg) ++ [CR]) ++ (utf8_enc pw ++ [CR]) /\
    pend (io c') = shift (now (io c')) st_pw /\ wfc c' /\ deaths c' = [] /\
    match b_timeout cfg with Some T => (now (io c') < now (io c) + T)%Z | None => True end.
Proof. exact bringup_succeeds. Qed.
Print Assumptions C18_login_succeeds_when_the_prompts_arrive_in_time.

(* the underlying channel theorem: read_until_prompt with a timeout returns the output when the whole answer arrives
   in time, whatever the fragmentation *)
Theorem C18_read_until_prompt_live_under_deadline :
  forall p tmo c S k,
  wfc c -> deaths c = [] -> match tmo with Some T => (0 < T)%Z | None => True end ->
  cpend c = S -> S <> [] -> only_tail (prompt_split (Some p)) S k ->
  ready (deadline (now (io c)) tmo) (pend (io c)) = length S ->
  exists c', read_until_prompt (Some p) tmo c = (Ret (text (firstn k S)), c') /\
             pend (io c') = [] /\ same_cfg c c' /\ deaths c' = [] /\ wfc c' /\ in_time (now (io c)) tmo c' /\
             now (io c') = last_time c.
Proof. exact rup_timed_live. Qed.
Print Assumptions C18_read_until_prompt_live_under_deadline.

(* (9) liveness of the U-Boot stage: the autoboot prompt (a match of the configured regex at the end of what has been
       printed) arrives before the boot timeout expires, the keys are sent, the U-Boot prompt follows within the first
       0.5 s poll: bring-up succeeds, exactly the keys were written (no ^C), the channel is drained and carries the
       U-Boot prompt -- for EVERY fragmentation and timing *)
Theorem C18_uboot_stage_succeeds_when_the_prompts_arrive_in_time :
  forall fuel cfg c S0 k0 (st_keys : stage) (sts : list stage) noise,
  u_autoboot cfg = true -> u_keys cfg <> [] -> u_prompt cfg <> [] ->
  match u_timeout cfg with Some T => (0 < T)%Z | None => True end ->
  wfc c -> deaths c = [] -> slow c = None ->
  cpend c = S0 -> S0 <> [] -> only_tail (prompt_split (Some (SRe AUTOBOOT_RE))) S0 k0 ->
  ready (deadline (now (io c)) (u_timeout cfg)) (pend (io c)) = length S0 ->
  wf_pend st_keys -> cat st_keys = noise ++ u_prompt cfg -> prompt_only_at_end (u_prompt cfg) noise ->
  within (Some HALF) st_keys ->
  exists c',
    uboot_bringup (S fuel) cfg (st_keys :: sts) c = (BOk, c', sts) /\
    wr (io c') = wr (io c) ++ u_keys cfg /\ pend (io c') = [] /\ prompt c' = Some (SLit (u_prompt cfg)).
Proof. exact uboot_succeeds. Qed.
Print Assumptions C18_uboot_stage_succeeds_when_the_prompts_arrive_in_time.

(* (11) the login of a machine without a password: when the output up to the login prompt arrives before the boot
        timeout, exactly the user name is sent and the stage succeeds within the timeout -- for EVERY fragmentation
        and timing; what the console prints afterwards stays pending for the shell's initialisation *)
Theorem C18_login_without_password_succeeds :
  forall cfg c (st_user : stage) (sts : list stage) noise0,
  b_login_delay cfg = 0%Z -> b_password cfg = None ->
  match b_timeout cfg with Some T => (0 < T)%Z | None => True end ->
  wfc c -> deaths c = [] -> slow c = None ->
  cpend c = noise0 ++ LOGIN_P -> prompt_only_at_end LOGIN_P noise0 ->
  ready (deadline (now (io c)) (b_timeout cfg)) (pend (io c)) = length (cpend c) ->
  any_in (blacklist c) (utf8_enc (b_user cfg) ++ [CR]) = false ->
  wf_pend st_user ->
  exists c',
    login_step cfg (now (io c)) (st_user :: sts) c = (BOk, c', sts) /\
    wr (io c') = wr (io c) ++ (utf8_enc (b_user cfg) ++ [CR]) /\
    pend (io c') = shift (now (io c')) st_user /\ wfc c' /\ deaths c' = [] /\
    match b_timeout cfg with Some T => (now (io c') < now (io c) + T)%Z | None => True end.
Proof. exact login_without_password_succeeds. Qed.
Print Assumptions C18_login_without_password_succeeds.

(* (12) the chain "log in, then initialise the shell" on one channel: under the hypotheses of (8) for the login and of
        C01's theorem for _init_shell (the probe's answer shows up, in time, in what the console prints after the
        password and after the probe; the later answers contain the prompt only at their end) the board ends up with
        an in-sync shell: exactly user name and password sent within the boot timeout, then prompt and black-list
        installed and nothing unread -- for EVERY fragmentation and timing of every reaction *)
Theorem C18_login_then_shell_initialisation :
  forall fuel tmo bl cfgl cfg c pw (st_user st_pw st0 st_ps1 : stage) (stgs : list stage) (st_san : stage)
         noise0 noise1 a noiseP,
  let rest := st0 :: st_ps1 :: stgs ++ [st_san] in
  b_askfirst cfg = false -> b_login_delay cfg = 0%Z -> b_password cfg = Some pw ->
  match b_timeout cfg with Some T => (0 < T)%Z | None => True end ->
  match b_nopw cfg with Some n => (0 < n)%Z | None => True end ->
  wfc c -> deaths c = [] -> slow c = None ->
  cpend c = noise0 ++ LOGIN_P -> prompt_only_at_end LOGIN_P noise0 ->
  ready (deadline (now (io c)) (b_timeout cfg)) (pend (io c)) = length (cpend c) ->
  any_in (blacklist c) (utf8_enc (b_user cfg) ++ [CR]) = false ->
  any_in (blacklist c) (utf8_enc pw ++ [CR]) = false ->
  wf_pend st_user -> cat st_user = noise1 ++ PASSWORD_P -> prompt_only_at_end PASSWORD_P noise1 ->
  within (match b_nopw cfg, b_timeout cfg with
          | None, None => None
          | None, Some T => Some (now (io c) + T - last_time c)%Z
          | Some n, None => Some n
          | Some n, Some T => Some (Z.min (now (io c) + T - last_time c) n)
          end) st_user ->
  wf_pend st_pw ->
  (0 < tmo)%Z -> wf_pend st0 -> any_in (blacklist c) (PROBE ++ [CR]) = false ->
  find_sub PROBE_ANSWER (cat st_pw ++ cat st0) = Some a ->
  a + length PROBE_ANSWER <= ready_before tmo (st_pw ++ st0) ->
  any_in bl (PS1_LINE ++ [CR]) = false ->
  Forall (fun l => any_in bl (l ++ [CR]) = false) cfgl ->
  any_in bl (SANITY ++ [CR]) = false ->
  wf_pend st_ps1 -> cat st_ps1 = noiseP ++ TBOT_PROMPT ->
  prompt_only_at_end TBOT_PROMPT (skipn (a + length PROBE_ANSWER) (cat st_pw ++ cat st0) ++ noiseP) ->
  Forall2 (fun l stg => wf_pend stg /\ exists noise, cat stg = noise ++ TBOT_PROMPT /\ prompt_only_at_end TBOT_PROMPT noise) cfgl stgs ->
  wf_pend st_san -> cat st_san = tty_echo false (SANITY ++ [CR]) ++ onlcr SANITY_ANSWER ++ TBOT_PROMPT ->
  exists c1 c2,
    bringup cfg (st_user :: st_pw :: rest) c = (BOk, c1, rest) /\
    wr (io c1) = wr (io c) ++ (utf8_enc (b_user cfg) ++ [CR]) ++ (utf8_enc pw ++ [CR]) /\
    match b_timeout cfg with Some T => (now (io c1) < now (io c) + T)%Z | None => True end /\
    init_shell (S fuel) tmo bl PS1_LINE cfgl rest c1 = (IOk, c2, []) /\
    insync c2 /\ prompt c2 = Some (SLit TBOT_PROMPT) /\ blacklist c2 = bl.
Proof. exact login_then_init_ok. Qed.
Print Assumptions C18_login_then_shell_initialisation.

(* (13) the password prompt that never comes: with a password and no_password_timeout = n configured, when no password
        prompt occurs among what the console prints during the n after the user name (and the boot timeout leaves more
        than n), the stage goes on WITHOUT sending the password - exactly the user name was written - at n after the
        login prompt was complete; what had arrived is consumed, the rest stays pending -- every fragmentation *)
Theorem C18_login_goes_on_when_no_password_prompt_comes :
  forall cfg c pw n (st_user : stage) (sts : list stage) noise0,
  b_login_delay cfg = 0%Z -> b_password cfg = Some pw -> b_nopw cfg = Some n -> (0 < n)%Z ->
  match b_timeout cfg with Some T => (0 < T)%Z | None => True end ->
  wfc c -> deaths c = [] -> slow c = None ->
  cpend c = noise0 ++ LOGIN_P -> prompt_only_at_end LOGIN_P noise0 ->
  ready (deadline (now (io c)) (b_timeout cfg)) (pend (io c)) = length (cpend c) ->
  any_in (blacklist c) (utf8_enc (b_user cfg) ++ [CR]) = false ->
  wf_pend st_user ->
  match b_timeout cfg with Some T => (n < now (io c) + T - last_time c)%Z | None => True end ->
  contains PASSWORD_P (firstn (ready_before n st_user) (cat st_user)) = false ->
  exists c',
    login_step cfg (now (io c)) (st_user :: sts) c = (BOk, c', sts) /\
    wr (io c') = wr (io c) ++ (utf8_enc (b_user cfg) ++ [CR]) /\
    now (io c') = (last_time c + n)%Z /\
    cpend c' = skipn (ready_before n st_user) (cat st_user) /\ wfc c' /\ deaths c' = [].
Proof. exact login_goes_on_without_password_prompt. Qed.
Print Assumptions C18_login_goes_on_when_no_password_prompt_comes.

(* (14) liveness of the askfirst stage: when the "Please press Enter to activate this console." banner arrives within
        the boot timeout, exactly one Enter is sent and the stage succeeds; what was printed behind the consumed data and
        the reaction to the Enter stay pending for the login -- every fragmentation and timing *)
Theorem C18_askfirst_succeeds_when_the_banner_arrives_in_time :
  forall cfg c (st : stage) (sts : list stage) a,
  match b_timeout cfg with Some T => (0 < T)%Z | None => True end ->
  wfc c -> deaths c = [] -> slow c = None ->
  find_sub ASKFIRST_P (cpend c) = Some a ->
  a + length ASKFIRST_P <= ready (deadline (now (io c)) (b_timeout cfg)) (pend (io c)) ->
  any_in (blacklist c) [CR] = false ->
  wf_pend st ->
  exists c' data,
    askfirst_step cfg (st :: sts) c = (BOk, c', sts) /\
    wr (io c') = wr (io c) ++ [CR] /\
    cpend c = data ++ skipn (length data) (cpend c) /\
    firstn (a + length ASKFIRST_P) data = firstn a (cpend c) ++ ASKFIRST_P /\
    cpend c' = skipn (length data) (cpend c) ++ cat st /\
    wfc c' /\ deaths c' = [] /\ slow c' = None /\ blacklist c' = blacklist c.
Proof. exact askfirst_succeeds. Qed.
Print Assumptions C18_askfirst_succeeds_when_the_banner_arrives_in_time.

(* (15) (8) under a boot timer that is already running (started by the askfirst stage or by a U-Boot stage at `start`):
        every deadline is start + T -- the prompts arriving before it => user name and password sent, success before
        start + T *)
Theorem C18_login_succeeds_under_a_running_timer :
  forall cfg start c pw (st_user st_pw : stage) (sts : list stage) noise0 noise1,
  b_login_delay cfg = 0%Z -> b_password cfg = Some pw ->
  (start <= now (io c))%Z ->
  match b_timeout cfg with Some T => (now (io c) < start + T)%Z | None => True end ->
  match b_nopw cfg with Some n => (0 < n)%Z | None => True end ->
  wfc c -> deaths c = [] -> slow c = None ->
  cpend c = noise0 ++ LOGIN_P -> prompt_only_at_end LOGIN_P noise0 ->
  ready (deadline start (b_timeout cfg)) (pend (io c)) = length (cpend c) ->
  any_in (blacklist c) (utf8_enc (b_user cfg) ++ [CR]) = false ->
  any_in (blacklist c) (utf8_enc pw ++ [CR]) = false ->
  wf_pend st_user -> cat st_user = noise1 ++ PASSWORD_P -> prompt_only_at_end PASSWORD_P noise1 ->
  within (match b_nopw cfg, b_timeout cfg with
          | None, None => None
          | None, Some T => Some (start + T - last_time c)%Z
          | Some n, None => Some n
          | Some n, Some T => Some (Z.min (start + T - last_time c) n)
          end) st_user ->
  wf_pend st_pw ->
  exists c',
    login_step cfg start (st_user :: st_pw :: sts) c = (BOk, c', sts) /\
    wr (io c') = wr (io c) ++ (utf8_enc (b_user cfg) ++ [CR]) ++ (utf8_enc pw ++ [CR]) /\
    pend (io c') = shift (now (io c')) st_pw /\ wfc c' /\ deaths c' = [] /\
    match b_timeout cfg with Some T => (now (io c') < start + T)%Z | None => True end /\
    slow c' = None /\ blacklist c' = blacklist c.
Proof. exact login_succeeds_running. Qed.
Print Assumptions C18_login_succeeds_under_a_running_timer.

(* (16) the chain AskfirstInitializer -> LinuxBootLogin under ONE boot timeout (started when the askfirst stage begins):
        the banner ends what has been printed and arrives in time, the reaction to the Enter ends with the login prompt
        before the deadline, the password prompt comes within the password wait => exactly Enter, user name and
        password are sent and the bring-up succeeds before start + T -- every fragmentation and timing
        (enter_done = the moment the reaction to the Enter is complete) *)
Theorem C18_askfirst_then_login_succeeds :
  forall cfg c pw (st_enter st_user st_pw : stage) (sts : list stage) pre noise0 noise1,
  b_askfirst cfg = true -> b_login_delay cfg = 0%Z -> b_password cfg = Some pw ->
  match b_timeout cfg with Some T => (0 < T)%Z | None => True end ->
  match b_nopw cfg with Some n => (0 < n)%Z | None => True end ->
  wfc c -> deaths c = [] -> slow c = None ->
  cpend c = pre ++ ASKFIRST_P -> find_sub ASKFIRST_P (cpend c) = Some (length pre) ->
  ready (deadline (now (io c)) (b_timeout cfg)) (pend (io c)) = length (cpend c) ->
  any_in (blacklist c) [CR] = false ->
  any_in (blacklist c) (utf8_enc (b_user cfg) ++ [CR]) = false ->
  any_in (blacklist c) (utf8_enc pw ++ [CR]) = false ->
  wf_pend st_enter -> cat st_enter = noise0 ++ LOGIN_P -> prompt_only_at_end LOGIN_P noise0 ->
  within (match b_timeout cfg with Some T => Some (now (io c) + T - last_time c)%Z | None => None end) st_enter ->
  wf_pend st_user -> cat st_user = noise1 ++ PASSWORD_P -> prompt_only_at_end PASSWORD_P noise1 ->
  within (match b_nopw cfg, b_timeout cfg with
          | None, None => None
          | None, Some T => Some (now (io c) + T - enter_done c st_enter)%Z
          | Some n, None => Some n
          | Some n, Some T => Some (Z.min (now (io c) + T - enter_done c st_enter) n)
          end) st_user ->
  wf_pend st_pw ->
  exists c',
    bringup cfg (st_enter :: st_user :: st_pw :: sts) c = (BOk, c', sts) /\
    wr (io c') = wr (io c) ++ [CR] ++ (utf8_enc (b_user cfg) ++ [CR]) ++ (utf8_enc pw ++ [CR]) /\
    pend (io c') = shift (now (io c')) st_pw /\ wfc c' /\ deaths c' = [] /\
    match b_timeout cfg with Some T => (now (io c') < now (io c) + T)%Z | None => True end.
Proof. exact askfirst_then_login_succeeds. Qed.
Print Assumptions C18_askfirst_then_login_succeeds.

(* (17) from the login prompt to the first command: log in, initialise the shell, exec -- under the hypotheses of (12)
        and of C01's exec theorem the command's output and status are exact and its arguments reach the shell as
        given, for EVERY fragmentation and timing of every reaction of the console *)
Local Open Scope Z_scope.
Theorem C18_login_initialisation_and_first_command_exact :
  forall fuel tmo bl cfgl cfg c pw (st_user st_pw st0 st_ps1 : stage) (stgs : list stage) (st_san : stage)  noise0 noise1 a noiseP args (st1 st2 : stage) out ds,
  let rest := st0 :: st_ps1 :: stgs ++ [st_san] in
  b_askfirst cfg = false -> b_login_delay cfg = 0 -> b_password cfg = Some pw ->
  match b_timeout cfg with Some T => 0 < T | None => True end ->
  match b_nopw cfg with Some n => 0 < n | None => True end ->
  wfc c -> deaths c = [] -> slow c = None ->
  cpend c = noise0 ++ LOGIN_P -> prompt_only_at_end LOGIN_P noise0 ->
  ready (deadline (now (io c)) (b_timeout cfg)) (pend (io c)) = length (cpend c) ->
  any_in (blacklist c) (utf8_enc (b_user cfg) ++ [CR]) = false ->
  any_in (blacklist c) (utf8_enc pw ++ [CR]) = false ->
  wf_pend st_user -> cat st_user = noise1 ++ PASSWORD_P -> prompt_only_at_end PASSWORD_P noise1 ->
  within (match b_nopw cfg, b_timeout cfg with
          | None, None => None
          | None, Some T => Some (now (io c) + T - last_time c)
          | Some n, None => Some n
          | Some n, Some T => Some (Z.min (now (io c) + T - last_time c) n)
          end) st_user ->
  wf_pend st_pw ->
  0 < tmo -> wf_pend st0 -> any_in (blacklist c) (PROBE ++ [CR]) = false ->
  find_sub PROBE_ANSWER (cat st_pw ++ cat st0) = Some a ->
  (a + length PROBE_ANSWER <= ready_before tmo (st_pw ++ st0))%nat ->
  any_in bl (PS1_LINE ++ [CR]) = false ->
  Forall (fun l => any_in bl (l ++ [CR]) = false) cfgl ->
  any_in bl (SANITY ++ [CR]) = false ->
  wf_pend st_ps1 -> cat st_ps1 = noiseP ++ TBOT_PROMPT ->
  prompt_only_at_end TBOT_PROMPT (skipn (a + length PROBE_ANSWER) (cat st_pw ++ cat st0) ++ noiseP) ->
  Forall2 (fun l stg => wf_pend stg /\ exists noise, cat stg = noise ++ TBOT_PROMPT /\ prompt_only_at_end TBOT_PROMPT noise) cfgl stgs ->
  wf_pend st_san -> cat st_san = tty_echo false (SANITY ++ [CR]) ++ onlcr SANITY_ANSWER ++ TBOT_PROMPT ->
  (* the first command *)
  Forall nonul args ->
  any_in bl (utf8_enc (sh_escape args) ++ [CR]) = false ->
  any_in bl (ECHO_Q ++ [CR]) = false ->
  wf_pend st1 -> cat st1 = tty_echo false (utf8_enc (sh_escape args) ++ [CR]) ++ onlcr out ++ TBOT_PROMPT ->
  prompt_only_at_end TBOT_PROMPT (onlcr out) ->
  wf_pend st2 -> cat st2 = tty_echo false (ECHO_Q ++ [CR]) ++ (ds ++ [CR; LF]) ++ TBOT_PROMPT ->
  all_digits ds -> ds <> [] -> prompt_only_at_end TBOT_PROMPT (ds ++ [CR; LF]) ->
  exists c1 c2 c3,
    bringup cfg (st_user :: st_pw :: rest) c = (BOk, c1, rest) /\
    init_shell (S fuel) tmo bl PS1_LINE cfgl rest c1 = (IOk, c2, []) /\
    lx_exec args [st1; st2] c2 = (XOk (dec_val ds) (text (onlcr out)), c3, []) /\
    insync c3 /\
    wr (io c3) = wr (io c2) ++ (utf8_enc (sh_escape args) ++ [CR]) ++ (ECHO_Q ++ [CR]) /\
    sh_words (utf8_enc (sh_escape args)) = Some (map utf8_enc args).
Proof. exact login_init_exec_exact. Qed.
Local Close Scope Z_scope.
Print Assumptions C18_login_initialisation_and_first_command_exact.

(* (18) the U-Boot stage followed by the first U-Boot command (C19's exec theorem composed with (10)): autoboot
        intercepted, prompt reached within the first poll, then the command's output and status are exact and its
        arguments reach hush as given -- every fragmentation and timing; exactly the keys and the two lines written *)
Local Open Scope Z_scope.
Theorem C18_uboot_stage_then_first_command_exact :
  forall fuel cfg c S0 k0 (st_keys : stage) noise args (st1 st2 : stage) (sts : list stage) out ds,
  u_autoboot cfg = true -> u_keys cfg <> [] -> u_prompt cfg <> [] ->
  match u_timeout cfg with Some T => 0 < T | None => True end ->
  wfc c -> deaths c = [] -> slow c = None ->
  cpend c = S0 -> S0 <> [] -> only_tail (prompt_split (Some (SRe AUTOBOOT_RE))) S0 k0 ->
  ready (deadline (now (io c)) (u_timeout cfg)) (pend (io c)) = length S0 ->
  wf_pend st_keys -> cat st_keys = noise ++ u_prompt cfg -> prompt_only_at_end (u_prompt cfg) noise ->
  within (Some HALF) st_keys ->
  (* the first command *)
  Forall plain args ->
  (forall c', prompt c' = Some (SLit (u_prompt cfg)) -> ub_override args c' = None) ->
  any_in (blacklist c) (utf8_enc (ub_escape args) ++ [CR]) = false ->
  any_in (blacklist c) (ECHO_Q ++ [CR]) = false ->
  wf_pend st1 -> cat st1 = (utf8_enc (ub_escape args) ++ [CR; LF]) ++ out ++ u_prompt cfg -> prompt_only_at_end (u_prompt cfg) out ->
  wf_pend st2 -> cat st2 = (ECHO_Q ++ [CR; LF]) ++ (ds ++ [CR; LF]) ++ u_prompt cfg ->
  all_digits ds -> ds <> [] -> prompt_only_at_end (u_prompt cfg) (ds ++ [CR; LF]) ->
  exists c1 c2,
    uboot_bringup (S fuel) cfg (st_keys :: st1 :: st2 :: sts) c = (BOk, c1, st1 :: st2 :: sts) /\
    ub_exec args (st1 :: st2 :: sts) c1 = (XOk (dec_val ds) (text out), c2, sts) /\
    insync c2 /\
    wr (io c2) = wr (io c) ++ u_keys cfg ++ (utf8_enc (ub_escape args) ++ [CR]) ++ (ECHO_Q ++ [CR]) /\
    hush_words (utf8_enc (ub_escape args)) = Some (map utf8_enc args).
Proof. exact uboot_then_exec_exact. Qed.
Local Close Scope Z_scope.
Print Assumptions C18_uboot_stage_then_first_command_exact.
