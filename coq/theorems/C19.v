(* C19 -- U-Boot commands: lossless quoting; output, status and environment parsed exactly.
   Property theorems only; proofs are in ProofC19.v (quoting, U-Boot corollaries) and ProofSession.v (the
   command/response exchange for every fragmentation).  hush_words is the model of U-Boot's classic hush parser
   (an environment model, see Hush.v); `plain` = no CR / LF / 0x03 / 0x04. *)
From TV Require Import Base Utf8 Utf8Lemmas Regex Channel ChannelLemmas Hush Session ProofSession ProofC19 ProofEnvUtf8.

(* (1) every argument list comes out of hush exactly as it went in: one word per argument, no variable
       expansion, command separation or comment taking effect -- on code points and on the bytes sent *)
Theorem C19_quoting_is_lossless :
  forall args, Forall plain args -> hush_words (ub_escape args) = Some args.
Proof. exact hush_quote_roundtrip. Qed.
Print Assumptions C19_quoting_is_lossless.

Theorem C19_bytes_sent_are_read_back_as_the_arguments :
  forall args, Forall plain args -> hush_words (utf8_enc (ub_escape args)) = Some (map utf8_enc args).
Proof. exact escape_sent_roundtrip. Qed.
Print Assumptions C19_bytes_sent_are_read_back_as_the_arguments.

(* (2) exec: for EVERY fragmentation and timing of the console's reaction (st1, st2 are arbitrary timed pieces
       whose concatenation is echo ++ output ++ prompt) and every partial-write behaviour of the transport, exec
       returns exactly the text of the console output between the echoed command and the next prompt and the
       status printed for `echo $?`; exactly the two lines are sent; the channel is in sync again *)
Theorem C19_exec_exact :
  forall args P c st1 st2 sts out ds,
  insync c -> prompt c = Some (SLit P) -> P <> [] ->
  Forall plain args -> ub_override args c = None ->
  any_in (blacklist c) (utf8_enc (ub_escape args) ++ [CR]) = false ->
  any_in (blacklist c) (ECHO_Q ++ [CR]) = false ->
  wf_pend st1 -> cat st1 = (utf8_enc (ub_escape args) ++ [CR; LF]) ++ out ++ P -> prompt_only_at_end P out ->
  wf_pend st2 -> cat st2 = (ECHO_Q ++ [CR; LF]) ++ (ds ++ [CR; LF]) ++ P ->
  all_digits ds -> ds <> [] -> prompt_only_at_end P (ds ++ [CR; LF]) ->
  exists c',
    ub_exec args (st1 :: st2 :: sts) c = (XOk (dec_val ds) (text out), c', sts) /\
    insync c' /\
    wr (io c') = wr (io c) ++ (utf8_enc (ub_escape args) ++ [CR]) ++ (ECHO_Q ++ [CR]) /\
    hush_words (utf8_enc (ub_escape args)) = Some (map utf8_enc args) /\
    prompt c' = prompt c /\ blacklist c' = blacklist c.
Proof. exact ub_exec_exact. Qed.
Print Assumptions C19_exec_exact.

(* (2b) the crc32 special case on a "=> " prompt: the output line contains "==> " and is still returned exactly *)
Theorem C19_exec_exact_crc32 :
  forall args c st1 st2 sts o ds,
  insync c -> prompt c = Some (SLit UB_ARROW) ->
  Forall plain args -> ub_override args c = Some (LF :: UB_ARROW) ->
  any_in (blacklist c) (utf8_enc (ub_escape args) ++ [CR]) = false ->
  any_in (blacklist c) (ECHO_Q ++ [CR]) = false ->
  ascii_noeol o ->
  wf_pend st1 -> cat st1 = (utf8_enc (ub_escape args) ++ [CR; LF]) ++ (o ++ [CR; LF]) ++ UB_ARROW ->
  wf_pend st2 -> cat st2 = (ECHO_Q ++ [CR; LF]) ++ (ds ++ [CR; LF]) ++ UB_ARROW ->
  all_digits ds -> ds <> [] -> prompt_only_at_end UB_ARROW (ds ++ [CR; LF]) ->
  exists c',
    ub_exec args (st1 :: st2 :: sts) c = (XOk (dec_val ds) (text (o ++ [CR; LF])), c', sts) /\ insync c'.
Proof. exact ub_exec_exact_crc32. Qed.
Print Assumptions C19_exec_exact_crc32.

(* (3) exec0 raises iff the status is not 0 *)
Theorem C19_exec0_raises_iff_nonzero :
  forall args sts c st out c' sts',
  ub_exec args sts c = (XOk st out, c', sts') ->
  ub_exec0 args sts c = (if (st =? 0)%Z then X0Ok out else X0Failure st, c', sts').
Proof. exact ub_exec0_iff. Qed.
Print Assumptions C19_exec0_raises_iff_nonzero.

(* (4) env: setting a variable and reading it back returns exactly the value (ASCII names and values; the
       general statement for arbitrary text is (4b) below) *)
Theorem C19_env_roundtrip :
  forall var v P c s1 s2 s3 s4 sts,
  insync c -> prompt c = Some (SLit P) -> P <> [] ->
  plain var -> plain v -> ascii_noeol var -> ascii_noeol v ->
  let setline := utf8_enc (ub_escape [SETENV; var; v]) in
  let getline := utf8_enc (ub_escape [PRINTENV; var]) in
  any_in (blacklist c) (setline ++ [CR]) = false -> any_in (blacklist c) (getline ++ [CR]) = false ->
  any_in (blacklist c) (ECHO_Q ++ [CR]) = false ->
  prompt_only_at_end P (ZERO ++ [CR; LF]) ->
  prompt_only_at_end P ((var ++ [61%N] ++ v) ++ [CR; LF]) ->
  wf_pend s1 -> cat s1 = (setline ++ [CR; LF]) ++ [] ++ P ->
  wf_pend s2 -> cat s2 = (ECHO_Q ++ [CR; LF]) ++ (ZERO ++ [CR; LF]) ++ P ->
  wf_pend s3 -> cat s3 = (getline ++ [CR; LF]) ++ ((var ++ [61%N] ++ v) ++ [CR; LF]) ++ P ->
  wf_pend s4 -> cat s4 = (ECHO_Q ++ [CR; LF]) ++ (ZERO ++ [CR; LF]) ++ P ->
  exists c', ub_env var (Some v) (s1 :: s2 :: s3 :: s4 :: sts) c = (X0Ok v, c', sts) /\ insync c'.
Proof. exact ub_env_roundtrip. Qed.
Print Assumptions C19_env_roundtrip.

(* (4b) the same for ARBITRARY text: names and values of Unicode scalar values (no CR / LF / 0x03 / 0x04);
        rests on utf8_dec (utf8_enc s ++ r) = s ++ utf8_dec r (Utf8Lemmas.v) *)
Theorem C19_env_roundtrip_any_text :
  forall var v P c s1 s2 s3 s4 sts,
  insync c -> prompt c = Some (SLit P) -> P <> [] ->
  plain var -> plain v -> Forall scalar var -> Forall scalar v ->
  let setline := utf8_enc (ub_escape [SETENV; var; v]) in
  let getline := utf8_enc (ub_escape [PRINTENV; var]) in
  any_in (blacklist c) (setline ++ [CR]) = false -> any_in (blacklist c) (getline ++ [CR]) = false ->
  any_in (blacklist c) (ECHO_Q ++ [CR]) = false ->
  prompt_only_at_end P (ZERO ++ [CR; LF]) ->
  prompt_only_at_end P (utf8_enc (var ++ [61%N] ++ v) ++ [CR; LF]) ->
  wf_pend s1 -> cat s1 = (setline ++ [CR; LF]) ++ [] ++ P ->
  wf_pend s2 -> cat s2 = (ECHO_Q ++ [CR; LF]) ++ (ZERO ++ [CR; LF]) ++ P ->
  wf_pend s3 -> cat s3 = (getline ++ [CR; LF]) ++ (utf8_enc (var ++ [61%N] ++ v) ++ [CR; LF]) ++ P ->
  wf_pend s4 -> cat s4 = (ECHO_Q ++ [CR; LF]) ++ (ZERO ++ [CR; LF]) ++ P ->
  exists c', ub_env var (Some v) (s1 :: s2 :: s3 :: s4 :: sts) c = (X0Ok v, c', sts) /\ insync c'.
Proof. exact ub_env_roundtrip_utf8. Qed.
Print Assumptions C19_env_roundtrip_any_text.

(* decoding the UTF-8 encoding of a text gives back the text (every Unicode scalar value, 1-4 byte forms) *)
Theorem C19_utf8_roundtrip :
  forall s, Forall scalar s -> utf8_dec (utf8_enc s) = s.
Proof. exact utf8_roundtrip. Qed.
Print Assumptions C19_utf8_roundtrip.
