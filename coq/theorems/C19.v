(* C19 -- U-Boot: lossless quoting; output, status and environment parsed exactly.  Property theorems only. *)
From TV Require Import Base Utf8 Hush ProofC19.

Theorem C19_quoting_is_lossless :
  forall args, Forall plain args -> hush_words (ub_escape args) = Some args.
Proof. exact hush_quote_roundtrip. Qed.
Print Assumptions C19_quoting_is_lossless.

Theorem C19_bytes_sent_are_read_back_as_the_arguments :
  forall args, Forall plain args -> hush_words (utf8_enc (ub_escape args)) = Some (map utf8_enc args).
Proof. exact escape_sent_roundtrip. Qed.
Print Assumptions C19_bytes_sent_are_read_back_as_the_arguments.
