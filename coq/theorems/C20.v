(* C20 -- ssh and scp are invoked with exactly the machine's configured parameters.
   Property theorems only; proofs are in ProofC20.v.  parse_cmd reads a command line back into its
   parameters (sshpass password, program, port, identity file, every -o option in order, operands). *)
From TV Require Import Base BaseLemmas SshScp ProofC20.
From Coq Require Import Permutation.

(* the ssh command line of an SSH machine carries exactly: user@host, the port, batch mode unless a password
   is used, host-key checking off iff configured, the multiplexing options iff enabled, every extra option in
   order, the identity file / the password of the authenticator -- and nothing else *)
Theorem C20_ssh_parameters :
  forall c d,
  parse_cmd (ssh_argv c d) =
  Some (mkPar (cfg_pass c) s_ssh (Some (c_port c)) (cfg_ident c) (cfg_oopts c d) [dest c]).
Proof. exact ssh_params. Qed.
Print Assumptions C20_ssh_parameters.

(* the scp command line built from the same configuration, for both directions *)
Theorem C20_scp_parameters :
  forall c d to_remote l r,
  not_flag l -> not_flag (dest c ++ COLON :: r) ->
  parse_cmd (scp_argv c d to_remote l r) =
  Some (mkPar (cfg_pass c) s_scp (Some (c_port c)) (cfg_ident c) (scp_oopts c d)
              (if to_remote then [l; dest c ++ COLON :: r] else [dest c ++ COLON :: r; l])).
Proof. exact scp_params. Qed.
Print Assumptions C20_scp_parameters.

(* ssh and scp carry the same parameters (the -o options up to order) *)
Theorem C20_ssh_and_scp_agree :
  forall c d to_remote l r ps pc,
  not_flag l -> not_flag (dest c ++ COLON :: r) ->
  parse_cmd (ssh_argv c d) = Some ps -> parse_cmd (scp_argv c d to_remote l r) = Some pc ->
  q_pass ps = q_pass pc /\ q_port ps = q_port pc /\ q_ident ps = q_ident pc /\
  Permutation (q_oopts pc) (q_oopts ps) /\
  q_pos ps = [dest c] /\
  q_pos pc = (if to_remote then [l; dest c ++ COLON :: r] else [dest c ++ COLON :: r; l]).
Proof. exact ssh_scp_same_parameters. Qed.
Print Assumptions C20_ssh_and_scp_agree.

(* host-key checking is disabled only when configured, batch mode is on unless a password is used, every
   extra ssh option is forwarded *)
Theorem C20_options_only_when_configured :
  forall c d,
  (In s_hk (cfg_oopts c d) <-> (c_ign c = true \/ In s_hk (c_opts c) \/ (c_mux c = true /\ s_hk = s_cpath ++ d ++ s_pc))) /\
  (In s_batch (cfg_oopts c d) <-> ((forall pw, c_auth c <> APass pw) \/ In s_batch (c_opts c) \/
                                   (c_mux c = true /\ s_batch = s_cpath ++ d ++ s_pc))) /\
  (forall o, In o (c_opts c) -> In o (cfg_oopts c d)).
Proof. exact options_only_when_configured. Qed.
Print Assumptions C20_options_only_when_configured.

(* copy(): whatever the pairing and the direction, an scp invocation is run on the local side with the
   REMOTE machine's parameters, and source / target are the caller's *)
Theorem C20_copy_uses_the_remote_machines_parameters :
  forall d h1 h2 p1 p2 lh argv,
  copy_model d h1 h2 p1 p2 = CScp lh argv ->
  (is_remote h2 = true /\ lh = m_id h1 /\ argv = scp_argv (m_cfg h2) d true p1 p2) \/
  (is_remote h1 = true /\ lh = m_id h2 /\ argv = scp_argv (m_cfg h1) d false p2 p1).
Proof. exact copy_uses_the_remote_machines_parameters. Qed.
Print Assumptions C20_copy_uses_the_remote_machines_parameters.

Theorem C20_copy_same_host_is_cp :
  forall d h1 h2 p1 p2, m_cls h1 = m_cls h2 -> copy_model d h1 h2 p1 p2 = CCp (m_id h1).
Proof. exact copy_same_host_is_cp. Qed.
Print Assumptions C20_copy_same_host_is_cp.

(* unsupported pairings raise instead of copying somewhere else *)
Theorem C20_copy_unsupported_raises :
  forall d h1 h2 p1 p2,
  m_cls h1 <> m_cls h2 ->
  m_kind h1 <> KLocal -> m_kind h2 <> KLocal ->
  ~ (m_kind h1 = KSsh /\ m_jump h1 = m_id h2) -> ~ (m_kind h2 = KSsh /\ m_jump h2 = m_id h1) ->
  copy_model d h1 h2 p1 p2 = CNotImplemented.
Proof. exact copy_unsupported_raises. Qed.
Print Assumptions C20_copy_unsupported_raises.

Theorem C20_example :
  parse_cmd (ssh_argv (mkCfg [50; 50]%N [117]%N [104]%N true [[88; 61; 121]%N] (AKey [47; 107]%N) false) []) =
  Some (mkPar None s_ssh (Some [50; 50]%N) (Some [47; 107]%N) [s_batch; s_hk; [88; 61; 121]%N] [[117; 64; 104]%N]).
Proof. exact ssh_example. Qed.
Print Assumptions C20_example.
