"""C01 -- Linux shell commands get exactly the given args; output and status are exact."""
import contextlib
import os
import pty
import random
import select
import subprocess
import termios

import tbot
import tbot.error
from tbot.machine import channel, connector, linux

from vlib import coq
from vlib.framework import Suite
from . import shell_common as sc
from . import chan_common as cc

PROP = "C01"
TRUSTED = [
    "Coq 8.16.1 kernel; vm_compute for correspondence evaluation; no native_compute",
    "model coq/Sh.v: shlex.quote as used by Bash.escape/Ash.escape (tied to /repo by correspondence), the shell's word splitting and the tty's echo -- ENVIRONMENT models, validated on every run against the real bash and dash of the sandbox (argv of `set -- <line>`) and against a real pty",
    "model coq/Session.v + coq/Channel.v (exec/exec0/test as a composition of channel operations over a staged transport); tie = correspondence with the real linux.Bash / linux.Ash classes over a simulated console, and end-to-end runs of the same classes on the real bash and dash",
    "the simulated console of the harness (tty echo per the echo model incl. ECHOCTL until the shell switches it off, ONLCR on output, PS1 after every command)",
    "the log-event stream attached by exec() is not part of the session model",
]
ASSUMPTIONS = [
    "arguments contain no NUL and no CR (the property's domain); the command word contains no '=' and is not a shell keyword, alias or function",
    "command line below the tty's canonical-mode line limit (4096 bytes)",
    "the program's output does not contain the prompt at an inspection point of read_until_prompt (sentinel prompt)",
    "busybox ash's built-in line editor is not modelled: `Ash` is exercised on dash, where the tty echoes",
]
RULE = ("argument lists over an alphabet of shell-special characters (quotes, backslash, $, `, !, globs, blanks, newline, tab, #, ~, ;, &, |, <, >, braces), safe characters, non-ASCII, control bytes the shell class allows, and the empty string: all strings up to length 3 over the special alphabet, random longer ones incl. > 512 bytes; "
        "exec / exec0 / test sequences against a simulated console with statuses 0..255, outputs with prompt look-alikes, CR LF and multi-byte text, reactions cut at random points, byte by byte and with delays, partial writes; "
        "the same calls end-to-end on the real bash and dash with READ_CHUNK_SIZE 1, 7 and 4096; non-trivial = an argument needs quoting or contains a control byte, or the reaction is fragmented; distinct by case hash")

SAFE = "abzAZ09_@%+=:,./-"
SPECIAL = "'\"\\$`!*?[]{}()<>|&;#~^ \t\n"
NONASCII = "äß€𝄞"
CTL_BASH = "\x01\x02\x05\x06\x07\x08\x0b\x0c\x0e\x0f\x10\x18\x19\x1b\x1d\x1e\x1f"
CTL_ASH = "\x01\x02\x05\x06\x07\x0b\x0c\x0f\x18\x1d\x1e"
TBOT_PROMPT = b"TBOT-VEJPVC1QUk9NUFQK$ "
BASH_BL = bytes([3, 4, 0x11, 0x12, 0x13, 0x14, 0x15, 0x16, 0x17, 0x1a, 0x1c, 0x7f])
ASH_BL = bytes([3, 4, 8, 9, 0xe, 0x10, 0x11, 0x12, 0x13, 0x14, 0x15, 0x16, 0x17, 0x19, 0x1a, 0x1b, 0x1c, 0x1f, 0x7f])


# ------------------------------------------------------------------ reference models (python side)
def tty_echo_ref(data: bytes, echoctl: bool) -> bytes:
    out = bytearray()
    for c in data:
        if c in (10, 13):
            out += b"\r\n"
        elif c == 9:
            out.append(c)
        elif c < 32 or c == 127:
            out += bytes([94, c ^ 64]) if echoctl else bytes([c])
        else:
            out.append(c)
    return bytes(out)


class Stuck(Exception):
    pass


def sh_ref(line: bytes):
    """words of a simple command made of literal words; Stuck for anything else"""
    words, cur, has, i, n = [], bytearray(), False, 0, len(line)
    ordinary = set(b"abcdefghijklmnopqrstuvwxyzABCDEFGHIJKLMNOPQRSTUVWXYZ0123456789_@%+=:,./-")
    while i < n:
        c = line[i]
        i += 1
        if c == 39:
            j = line.find(b"'", i)
            if j < 0:
                raise Stuck("open quote")
            cur += line[i:j]
            has = True
            i = j + 1
        elif c == 34:
            has = True
            while True:
                if i >= n:
                    raise Stuck("open quote")
                d = line[i]
                i += 1
                if d == 34:
                    break
                if d in (36, 96):
                    raise Stuck("expansion")
                if d == 92:
                    if i >= n:
                        raise Stuck("open")
                    e = line[i]
                    i += 1
                    if e == 10:
                        continue
                    if e in (36, 96, 34, 92):
                        cur.append(e)
                    else:
                        cur += bytes([92, e])
                else:
                    cur.append(d)
        elif c in (32, 9):
            if has:
                words.append(bytes(cur))
            cur, has = bytearray(), False
        elif c == 92:
            if i >= n:
                raise Stuck("open")
            d = line[i]
            i += 1
            if d != 10:
                cur.append(d)
                has = True
        elif c in ordinary or c >= 128:
            cur.append(c)
            has = True
        else:
            raise Stuck("special %r" % chr(c))
    if has:
        words.append(bytes(cur))
    return words


# ------------------------------------------------------------------ simulated console
class LinuxSim:
    def __init__(self):
        self.ps1 = b"$ "
        self.echoctl = True
        self.status = 0
        self.argvs = []
        self.plan = []

    def execute(self, line: bytes) -> bytes:
        if line == b"echo $?":
            out = b"%d\n" % self.status
            self.status = 0
            return out
        if line == b"echo TBOT\\LOGIN":
            return b"TBOTLOGIN\n"
        if line.startswith(b"PROMPT_COMMAND=''; PS1='"):
            ps1 = sh_ref(line.split(b"; ", 1)[1])[0]
            self.ps1 = ps1[4:]
            return b""
        if line == b"stty -echoctl":
            self.echoctl = False
            return b""
        if line.startswith((b"stty ", b"unset HISTFILE", b"set +o", b"PS2=", b"histchars=")):
            return b""
        try:
            argv = sh_ref(line)
        except Stuck as e:
            self.argvs.append(None)
            self.status = 2
            return b"sh: syntax error: " + str(e).encode() + b"\n"
        self.argvs.append(argv)
        if not argv:
            return b""
        if argv[0] == b"echo":
            self.status = 0
            return b" ".join(argv[1:]) + b"\n"
        if argv[0] == b"run":
            st, out = self.plan.pop(0) if self.plan else (0, b"")
            self.status = st
            return out
        self.status = 127
        return b"sh: 1: " + argv[0] + b": not found\n"

    def react(self, line: bytes):
        # the echo is produced while the line is typed, i.e. with the setting in force BEFORE the command runs
        echo = tty_echo_ref(line + b"\r", self.echoctl)
        out = self.execute(line).replace(b"\n", b"\r\n")
        return echo, out, self.ps1


def mk_machine(io, ash):
    base = linux.Ash if ash else linux.Bash

    class M(connector.Connector, base):
        name = "sim-ash" if ash else "sim-bash"

        @contextlib.contextmanager
        def _connect(self):
            yield channel.Channel(io)

        def clone(self):
            raise NotImplementedError()
    return M


def call_args(call):
    return call[1]


def run_calls(case):
    ash = case["ash"]
    rng = random.Random(case["seed"])
    clock = sc.VirtualClock()
    sim = LinuxSim()
    sim.plan = [(st, bytes.fromhex(o)) for st, o in case["plan"]]
    io = sc.StageIO([], case["accept"], clock, initial=[[0, b"$ "]])
    io.reactor = lambda line: b"".join(sim.react(line))
    results, all_stages, siminfo = [], [], []
    with sc.patched_clock(clock), sc.quiet_log():
        with mk_machine(io, ash)() as m:
            io.reactor = None
            io.accept = list(case["accept"])
            if case.get("slow"):
                m.ch.slow_send_delay = case["slow"][0] / sc.UNIT
                m.ch.slow_send_chunksize = case["slow"][1]
            base_written = len(io.written)
            left = io.unread()
            io.pend = []
            for call in case["calls"]:
                kind, args = call[0], call[1]
                stages, info = [], []
                for line in (m.escape(*args).encode("utf-8"), b"echo $?"):
                    nargv = len(sim.argvs)
                    echo, out, pr = sim.react(line)
                    data = echo + out + pr
                    pieces = sc.fragment(rng, data, len(echo), pr, one_byte=(case["frag"] == "bytes"),
                                         maxpieces=(1 if case["frag"] == "whole" else 8))
                    stages.append(sc.timed_stage(rng, pieces, maxgap=case.get("maxgap", 0)))
                    argv = sim.argvs[nargv] if len(sim.argvs) > nargv else "n/a"
                    info.append([line.hex(), out.hex(), sim.status, argv if argv in (None, "n/a") else [a.hex() for a in argv]])
                io.stages = [[[t, bytes(d)] for t, d in st] for st in stages]
                io.armed = True
                try:
                    if kind == "exec":
                        rc, out = m.exec(*args)
                        results.append([0, rc, out])
                    elif kind == "exec0":
                        results.append([0, m.exec0(*args)])
                    else:
                        results.append([0, 1 if m.test(*args) else 0])
                except tbot.error.CommandFailure:
                    results.append([1])
                except tbot.error.InvalidRetcodeError as e:
                    r = [1, e.retcode_str]
                    results.append(r if kind == "exec" else [2, r])
                except Exception as e:  # noqa
                    r = [2, sc.exc_kind(e)]
                    results.append(r if kind == "exec" else [2, r])
                all_stages.append([[[t, d.hex()] for t, d in st] for st in stages])
                siminfo.append(info)
            written = bytes(io.written[base_written:])
            unread = io.unread()
            io.pend = []
            echoctl = sim.echoctl
    case["_stages"] = all_stages
    return [results, written, unread, siminfo, [echoctl, left.hex()]]


def call_coq(call, stages):
    kind = {"exec": "LExec", "exec0": "LExec0", "test": "LTest"}[call[0]]
    strs = coq.lst(sc.codepoints, call[1], "(list N)")
    sts = [[[t, bytes.fromhex(d)] for t, d in st] for st in stages]
    return f"({kind} {strs}, {sc.stages_coq(sts)})"


def in_domain(args, ash):
    bl = ASH_BL if ash else BASH_BL
    return all(c not in "\x00\r" and not (ord(c) < 128 and ord(c) in bl) for a in args for c in a)


class ExecSuite(Suite):
    name = "exec"
    imports = ["Channel", "Hush", "Session", "Sh"]
    model_fn = "lx_model"
    shard = 150

    def run(self, case):
        return run_calls(case)

    def coq_input(self, case):
        calls = coq.lst(lambda cs: call_coq(*cs), list(zip(case["calls"], case["_stages"])), "(lx_call * list stage)")
        return f"({coq.boolean(case['ash'])}, {coq.natlist(case['accept'])}, {calls})"

    def obs_term(self, case, obs):
        return coq.V(obs[:3])

    def oracle(self, case, obs):
        fails = []
        results, written, unread, siminfo, _ = obs
        for call, res, info in zip(case["calls"], results, siminfo):
            kind, args = call[0], call[1]
            bl = ASH_BL if case["ash"] else BASH_BL
            if any(c in "\x00\r" for a in args for c in a):
                continue
            first = info[0]
            line = bytes.fromhex(first[0])
            if any(b in bl for b in line):
                want = [2, 4] if kind == "exec" else [2, [2, 4]]
                if res != want:
                    fails.append(f"{kind}{tuple(args)!r} with a forbidden byte gave {res!r} instead of IllegalDataException")
                continue
            out_txt = sc.py_text(bytes.fromhex(first[1]))
            if first[3] != [a.encode("utf-8").hex() for a in args]:
                fails.append(f"the shell received argv {first[3]} for arguments {args!r}")
            if kind == "exec":
                want = [0, first[2], out_txt]
            elif kind == "exec0":
                want = [0, out_txt] if first[2] == 0 else [1]
            else:
                want = [0, 1 if first[2] == 0 else 0]
            if res != want:
                fails.append(f"{kind}{tuple(args)!r} returned {res!r}, the console gave status {first[2]} output {out_txt!r}")
        if not fails and unread:
            fails.append(f"console output left unread after the calls: {unread!r}")
        return fails

    def nontrivial(self, case, obs):
        return case["frag"] != "whole" or any(c not in SAFE for call in case["calls"] for a in call[1] for c in a)

    def klass(self, case, obs):
        return ("ash:" if case["ash"] else "bash:") + case["frag"]

    def finding_key(self, case, obs, failure):
        return None

    def gen(self, tier, rng):
        n = 700 if tier == "quick" else 5000
        for i in range(n):
            ash = rng.random() < 0.5
            calls, plan = [], []
            for _ in range(rng.randint(1, 4)):
                args = [rng.choice(["run", "run", "run", "echo", "nosuchcmd"])] + [rand_arg(rng, ash) for _ in range(rng.randint(0, 3))]
                calls.append([rng.choice(["exec", "exec", "exec0", "test"]), args])
                if args[0] == "run":
                    plan.append([rand_status(rng), rand_output(rng).hex()])
            yield {"ash": ash, "accept": [rng.randint(1, 600) for _ in range(rng.randint(0, 3))], "calls": calls, "plan": plan,
                   "seed": rng.randrange(1 << 30), "frag": rng.choice(["whole", "random", "random", "bytes"]),
                   "maxgap": rng.choice([0, 0, 512, 4096])}


def rand_arg(rng, ash=False, ctl=True):
    k = rng.random()
    if k < 0.07:
        return ""
    if k < 0.2:
        return "".join(rng.choice(SAFE) for _ in range(rng.randint(1, 6)))
    if k < 0.25:
        return "".join(rng.choice(SAFE + SPECIAL.replace("\t", "")) for _ in range(rng.randint(500, 700)))
    if k < 0.4 and ctl:
        pool = CTL_ASH if ash else CTL_BASH
        return "".join(rng.choice(pool + "ab'") for _ in range(rng.randint(1, 5)))
    if k < 0.45:
        return rng.choice(["\x03", "a\x04", "\x7f", "\x15x", "\x1a", "\t" if ash else "\x11"])        # forbidden bytes
    alpha = (SPECIAL.replace("\t", "") if ash else SPECIAL) + "a1-" + NONASCII
    return "".join(rng.choice(alpha) for _ in range(rng.randint(1, 8)))


def rand_status(rng):
    return rng.choice([0, 0, 0, 1, 2, 126, 127, 128, 255, rng.randint(0, 255)])


def rand_output(rng):
    lines = []
    for _ in range(rng.randint(0, 4)):
        k = rng.random()
        if k < 0.15:
            lines.append(TBOT_PROMPT + b"not the end")
        elif k < 0.25:
            lines.append(b"$ ")
        elif k < 0.35:
            lines.append("grüße € 𝄞".encode())
        elif k < 0.4:
            lines.append(b"y" * rng.randint(4000, 4200))
        elif k < 0.5:
            lines.append(rng.choice([b" 10%\r 50%\r100%", b"a\rb", b"\rx", b"spin |\rspin /\rdone"]))     # bare carriage returns inside a line
        else:
            lines.append(bytes(rng.choice(b"abc $#'\\\"0\t") for _ in range(rng.randint(0, 12))))
    out = b"\n".join(lines)
    if lines and rng.random() < 0.8:
        out += b"\n"
    return out


# ------------------------------------------------------------------ quoting against the real shells
SHELL_SCRIPT = "; printf '%s\\n' \"$#\"; for a; do printf '%s\\n%s\\n' \"${#a}\" \"$a\"; done"


def shell_argv(shell, line: bytes):
    """what `shell` makes of the words of `line`: list of bytes, or None"""
    if b"\x00" in line:
        return None
    try:
        p = subprocess.run([shell, "-c", b"set -- " + line + SHELL_SCRIPT.encode()], stdout=subprocess.PIPE, stderr=subprocess.DEVNULL,
                           env={"LC_ALL": "C", "PATH": "/usr/bin:/bin", "HOME": "/nonexistent"}, cwd="/", timeout=10)
    except Exception:  # noqa
        return None
    if p.returncode != 0:
        return None
    out = p.stdout
    try:
        nl = out.index(b"\n")
        n = int(out[:nl])
        pos = nl + 1
        words = []
        for _ in range(n):
            nl = out.index(b"\n", pos)
            ln = int(out[pos:nl])
            pos = nl + 1
            words.append(out[pos:pos + ln])
            assert out[pos + ln:pos + ln + 1] == b"\n"
            pos += ln + 1
        assert pos == len(out)
        return words
    except Exception:  # noqa
        return None


class SlowExecSuite(ExecSuite):
    """the same calls on a channel configured for slow sending, over a transport that accepts fewer bytes than offered"""
    name = "exec_slow"
    model_fn = "lx_model_slow"

    def coq_input(self, case):
        calls = coq.lst(lambda cs: call_coq(*cs), list(zip(case["calls"], case["_stages"])), "(lx_call * list stage)")
        return f"({coq.boolean(case['ash'])}, {coq.natlist(case['accept'])}, ({coq.z(case['slow'][0])}, {coq.nat(case['slow'][1])}), {calls})"

    def gen(self, tier, rng):
        import itertools as _it
        for case in _it.islice(super().gen(tier, rng), 150 if tier == "quick" else 1000):
            case["slow"] = [rng.choice([0, 1, 16]), rng.choice([1, 7, 32, 64])]
            case["accept"] = [rng.randint(1, 40) for _ in range(rng.randint(0, 12))]
            case["maxgap"] = 0
            yield case


class QuoteSuite(Suite):
    """Bash.escape / Ash.escape against the model; the model's word splitting against bash and dash"""
    name = "quote"
    imports = ["Hush", "Session", "Sh"]
    model_fn = "shq_model"
    shard = 60

    def run(self, case):
        out = []
        for args in case["lists"]:
            esc = linux.Bash.escape(None, *args)
            esc2 = linux.Ash.escape(None, *args)
            line = esc.encode("utf-8")
            out.append([esc, esc2, shell_argv("/bin/bash", line), shell_argv("/bin/dash", line)])
        case["_obs"] = [None if o[2] is None else [w.hex() for w in o[2]] for o in out]
        return out

    def coq_input(self, case):
        def one(p):
            args, o = p
            obs_words = [bytes.fromhex(w) for w in o] if o is not None else []
            return f"({coq.lst(sc.codepoints, args, '(list N)')}, {coq.lst(coq.nlist, obs_words, '(list N)')})"
        return coq.lst(one, list(zip(case["lists"], case["_obs"])), "(list (list N) * list (list N))")

    def obs_term(self, case, obs):
        return coq.V([[o[0], o[2] if o[2] is not None else []] for o in obs])

    def oracle(self, case, obs):
        fails = []
        for args, o in zip(case["lists"], obs):
            if any("\x00" in a for a in args):
                continue
            want = [a.encode("utf-8") for a in args]
            if o[0] != o[1]:
                fails.append(f"Bash.escape and Ash.escape differ on {args!r}")
            for sh, got in (("bash", o[2]), ("dash", o[3])):
                if got != want:
                    fails.append(f"arguments {args!r} are sent as {o[0]!r}, which {sh} splits into {got!r}")
        return fails

    def nontrivial(self, case, obs):
        return True

    def klass(self, case, obs):
        return "lists"

    def gen(self, tier, rng):
        import itertools
        alpha = "'\"\\$`!* \n~#a" if tier == "quick" else "'\"\\$`!*? \n\t~#;&|<>(){}[]^a-"
        singles = []
        for n in range(0, 3 if tier == "quick" else 4):
            for t in itertools.product(alpha, repeat=n):
                singles.append(["".join(t)])
        for a in ["", "-n", "-e", "a=b", "$HOME", "${x}", "$(id)", "`id`", "!!", "!x", "^a^b", "\n^x", "*", "~", "~root", "a b", "a\tb", "\\", "\\\\", "\\n",
                  "'", "''", "'\"'\"'", "\x01", "\x1b[0m", "ä", "€𝄞", "a'b\"c", "#c", "a#", "{a,b}", "x y'z", "\x7f", "\x08"]:
            singles.append(["x", a])
            singles.append([a, a])
        for _ in range(400 if tier == "quick" else 4000):
            singles.append([rand_arg(rng) for _ in range(rng.randint(1, 4))])
        for i in range(0, len(singles), 20):
            yield {"lists": singles[i:i + 20]}


class ShLineSuite(Suite):
    """the model's word splitting against bash and dash on arbitrary lines (validation of the environment model)"""
    name = "shline"
    imports = ["Hush", "Session", "Sh"]
    model_fn = "shline_model"
    shard = 60

    def run(self, case):
        out = []
        for h in case["lines"]:
            line = bytes.fromhex(h)
            b, d = shell_argv("/bin/bash", line), shell_argv("/bin/dash", line)
            out.append([b, d])
        case["_obs"] = [None if o[0] is None else [w.hex() for w in o[0]] for o in out]
        return out

    def coq_input(self, case):
        def one(p):
            h, o = p
            return f"({coq.nlist(bytes.fromhex(h))}, {coq.lst(coq.nlist, [bytes.fromhex(w) for w in o] if o is not None else [], '(list N)')})"
        return coq.lst(one, list(zip(case["lines"], case["_obs"])), "(list N * list (list N))")

    def obs_term(self, case, obs):
        return coq.V([o[0] if o[0] is not None else [] for o in obs])

    def oracle(self, case, obs):
        # where the python reference gives words, both shells must agree with it (validates the simulator's tokenizer too)
        fails = []
        for h, o in zip(case["lines"], obs):
            line = bytes.fromhex(h)
            try:
                ref = sh_ref(line)
            except Stuck:
                continue
            if b"\x00" in line:
                continue
            if o[0] != ref or o[1] != ref:
                fails.append(f"MODEL-VALIDATION: line {line!r}: reference says {ref!r}, bash {o[0]!r}, dash {o[1]!r}")
        return fails

    def klass(self, case, obs):
        return "lines"

    def gen(self, tier, rng):
        import itertools
        alpha = b"'\"\\ a$\n"
        lines = []
        for n in range(0, 5 if tier == "quick" else 6):
            for t in itertools.product(alpha, repeat=n):
                lines.append(bytes(t).hex())
        for _ in range(300 if tier == "quick" else 3000):
            lines.append(bytes(rng.choice(b"'\"\\ ab$`*\t\n-\xc3\xa4") for _ in range(rng.randint(0, 12))).hex())
        for i in range(0, len(lines), 25):
            yield {"lines": lines[i:i + 25]}


# ------------------------------------------------------------------ the tty's echo
def pty_echo(data: bytes, echoctl: bool) -> bytes:
    m, s = pty.openpty()
    try:
        a = termios.tcgetattr(s)
        a[0] |= termios.ICRNL
        a[1] |= termios.OPOST | termios.ONLCR
        a[3] |= termios.ECHO | termios.ICANON | termios.ECHOE | termios.ECHOK
        if echoctl:
            a[3] |= termios.ECHOCTL
        else:
            a[3] &= ~termios.ECHOCTL
        termios.tcsetattr(s, termios.TCSANOW, a)
        out = bytearray()
        import time as _t
        for i in range(0, len(data), 64):
            chunk = data[i:i + 64]
            os.write(m, chunk)
            want = len(out) + len(chunk)          # the echo is at least as long as what was typed
            deadline = _t.monotonic() + 2.0
            while len(out) < want and _t.monotonic() < deadline:
                if select.select([m], [], [], 0.05)[0]:
                    out += os.read(m, 4096)
            while select.select([m], [], [], 0.03)[0]:
                out += os.read(m, 4096)
        return bytes(out)
    finally:
        os.close(m)
        os.close(s)


class TtySuite(Suite):
    name = "tty"
    imports = ["Hush", "Session", "Sh"]
    model_fn = "tty_model"
    shard = 400

    def run(self, case):
        return pty_echo(bytes.fromhex(case["data"]), case["echoctl"])

    def coq_input(self, case):
        return f"({coq.boolean(case['echoctl'])}, {coq.nlist(bytes.fromhex(case['data']))})"

    def klass(self, case, obs):
        return "echoctl" if case["echoctl"] else "noechoctl"

    def gen(self, tier, rng):
        allowed = bytes(b for b in range(1, 256) if b not in BASH_BL and b != 0)
        for b in allowed:
            for e in (False, True):
                yield {"data": bytes([97, b, 98]).hex(), "echoctl": e}
        for _ in range(60 if tier == "quick" else 600):
            yield {"data": bytes(rng.choice(allowed) for _ in range(rng.randint(1, 120))).hex(), "echoctl": rng.random() < 0.5}


# ------------------------------------------------------------------ end to end on the real shells
HELPER = os.path.join(os.path.dirname(os.path.abspath(__file__)), "argdump.py")


class RealBash(connector.SubprocessConnector, linux.Bash):
    name = "real-bash"


class RealDash(connector.ConsoleConnector, linux.Ash):
    name = "real-dash"

    def connect(self, mach):
        return mach.open_channel("dash")


class E2ESuite(Suite):
    """the real linux.Bash and linux.Ash on the sandbox's bash and dash: a helper program reports its argv"""
    name = "e2e"
    model_fn = None

    def run(self, case):
        import signal

        class Hang(Exception):
            pass

        def on_alarm(sig, frm):
            raise Hang()

        res = []
        old = signal.signal(signal.SIGALRM, on_alarm)
        try:
            with sc.quiet_log():
                try:
                    with RealBash() as lh:
                        with contextlib.ExitStack() as cx:
                            m = cx.enter_context(RealDash(lh)) if case["ash"] else lh
                            m.ch.READ_CHUNK_SIZE = case["chunk"]
                            for kind, args, st, outhex, rep in case["calls"]:
                                full = ["/venv/bin/python", HELPER, str(st), outhex, str(rep)] + list(args)
                                signal.alarm(90)
                                try:
                                    if kind == "patharg":
                                        # a Path argument is quoted like a string argument
                                        pa = [linux.Path(m, a) for a in args]
                                        rc, out = m.exec("/venv/bin/python", HELPER, str(st), outhex, str(rep), *pa)
                                        res.append([0, rc, out])
                                    elif kind == "redir":
                                        # stdout redirected into a file whose name needs quoting
                                        target = f"/tmp/tbot-verif-c01-{os.getpid()}-{len(res)} x'y"
                                        m.exec0("printf", "%s", args[0], linux.RedirStdout(linux.Path(m, target)))
                                        try:
                                            content = open(target, "rb").read().decode("utf-8", "replace")
                                        finally:
                                            with contextlib.suppress(OSError):
                                                os.unlink(target)
                                        res.append([0, 0, content])
                                    elif kind == "exec":
                                        rc, out = m.exec(*full)
                                        res.append([0, rc, out])
                                    elif kind == "exec0":
                                        res.append([0, m.exec0(*full)])
                                    else:
                                        res.append([0, 1 if m.test(*full) else 0])
                                except tbot.error.CommandFailure:
                                    res.append([1])
                                except tbot.error.IllegalDataException:
                                    res.append([2, 4])
                                except tbot.error.InvalidRetcodeError as e:
                                    res.append([3, e.retcode_str])
                                except Hang:
                                    res.append([9])       # no answer within 20 s: the machine lost sync with its shell
                                    break
                                except Exception as e:  # noqa  (anything else the call raised is an observation)
                                    res.append([8, type(e).__name__])
                                finally:
                                    signal.alarm(0)
                            signal.alarm(10)
                except Hang:
                    pass
                finally:
                    signal.alarm(0)
        finally:
            signal.signal(signal.SIGALRM, old)
        return res

    def oracle(self, case, obs):
        fails = []
        bl = ASH_BL if case["ash"] else BASH_BL
        if len(obs) < len(case["calls"]):
            obs = list(obs) + [[9]] * (len(case["calls"]) - len(obs))
        for (kind, args, st, outhex, rep), r in zip(case["calls"], obs):
            if any(ord(c) < 128 and ord(c) in bl for a in args for c in a):
                if r != [2, 4]:
                    fails.append(f"{kind} with a forbidden byte in {args!r} gave {r!r} instead of IllegalDataException")
                continue
            if kind == "redir":
                if r != [0, 0, args[0]]:
                    fails.append(f"real shell: printf %s {args[0]!r} redirected into a file gave {r!r}")
                continue
            if kind == "patharg":
                kind = "exec"
            payload = bytes.fromhex(outhex) * rep
            raw = ("|".join(a.encode("utf-8").hex() for a in args) + "\n").encode() + payload
            want_out = sc.py_text(raw.replace(b"\n", b"\r\n"))      # the tty's ONLCR, then the documented newline normalisation
            if kind == "exec":
                want = [0, st, want_out]
            elif kind == "exec0":
                want = [0, want_out] if st == 0 else [1]
            else:
                want = [0, 1 if st == 0 else 0]
            if r != want:
                fails.append(f"real {'dash' if case['ash'] else 'bash'}, READ_CHUNK_SIZE={case['chunk']}: {kind}(helper, {st}, ..., *{args!r}) returned {r!r}, expected {want!r}")
        return fails

    def nontrivial(self, case, obs):
        return True

    def klass(self, case, obs):
        return ("dash" if case["ash"] else "bash") + ":%d" % case["chunk"]

    def finding_key(self, case, obs, failure):
        return None

    def gen(self, tier, rng):
        n = 60 if tier == "quick" else 600
        fixed = [["a b", "$x", "`id`", "!x", "*", "a\nb", "", "ä€", "\\", "'", "\"", "^x\n^y", "-n"], ["\x01"], ["\x1b[0m", "x"], ["a\x02b\x05"], ["\n^a^b"], ["~", "#", "{a,b}"]]
        for ash in (False, True):
            yield {"ash": ash, "chunk": 4096, "calls": [["patharg", ["/tmp/x y", "/a'b/c", "rel/$HOME"], 0, "", 1],
                                                         ["redir", ["text with 'quotes' and $vars"], 0, "", 1],
                                                         ["redir", [""], 0, "", 1],
                                                         ["exec", ["after"], 0, "", 1]]}
        # every control byte (other than NUL and CR) inside an argument, on both shells: either the shell class declares
        # it forbidden (IllegalDataException, nothing sent) or the program receives it unaltered
        ctl = [b for b in list(range(1, 32)) + [127] if b != 13]
        for ash in (False, True):
            for k in range(0, len(ctl), 8):
                yield {"ash": ash, "chunk": 4096,
                       "calls": [["exec", ["a" + chr(b) + "b"], 0, "6f6b0a", 1] for b in ctl[k:k + 8]] + [["exec", ["after"], 3, "", 1]]}
        for i in range(n):
            ash = i % 2 == 1
            calls = []
            for _ in range(rng.randint(1, 5)):
                if i < 2 * len(fixed):
                    args = [a for a in fixed[i // 2] if not (ash and any(ord(c) < 128 and ord(c) in ASH_BL for c in a))]
                else:
                    args = [rand_arg(rng, ash) for _ in range(rng.randint(0, 4))]
                args = [a.replace("\r", "") for a in args]
                while sum(len(a.encode()) * 4 + 3 for a in args) > 2400:       # keep the line below the tty's 4096-byte limit
                    args = args[:-1]
                payload = rand_output(rng).replace(TBOT_PROMPT, b"T").replace(b"y" * 100, b"")[:300]
                calls.append([rng.choice(["exec", "exec", "exec0", "test"]), args, rand_status(rng), payload.hex(), rng.choice([1, 1, 1, 2, 40])])
            yield {"ash": ash, "chunk": rng.choice([1, 7, 4096, 4096]), "calls": calls}




# ------------------------------------------------------------------ _init_shell (Bash and Ash) against the model
import shutil as _shutil              # noqa: E402


def init_lines(ash):
    """the configuration lines of _init_shell between the PS1 line and the sanity check"""
    if ash:
        return ["unset HISTFILE", "stty cols 1024", "PS2=''", "stty -echoctl"]
    ts = _shutil.get_terminal_size()
    return ["unset HISTFILE", "set +o emacs; set +o vi", "PS2=''", "stty -echoctl", "histchars=''",
            f"stty cols {max(80, ts.columns - 48)}", f"stty rows {ts.lines}"]


PS1_LINE = b"PROMPT_COMMAND=''; PS1='" + TBOT_PROMPT[:6] + b"''" + TBOT_PROMPT[6:] + b"'"


class InitSim:
    """a console with a shell that has just been started: reacts to every line with echo, output, prompt"""

    def __init__(self, cfg, rng):
        self.cfg = cfg
        self.rng = rng
        self.sh = LinuxSim()
        self.lines = []

    def frag(self, data, t0):
        cfg, rng = self.cfg, self.rng
        if not data:
            return []
        if cfg["frag"] == "bytes":
            pieces = [data[i:i + 1] for i in range(len(data))]
        elif cfg["frag"] == "whole":
            pieces = [data]
        else:
            pieces = cc.rand_split(rng, data, 5)
        out, t = [], t0
        for p in pieces:
            t += rng.choice([0, 0, 1, cfg["gap"]]) if cfg["gap"] else 0
            out.append([t, bytes(p)])
        return out

    def initial(self):
        return self.frag(self.cfg["banner"].encode() + b"$ ", self.cfg["d0"])

    def react(self, line):
        self.lines.append(line.hex())
        n = len(self.lines)
        d = self.cfg["delays"][n - 1] if n - 1 < len(self.cfg["delays"]) else 0
        echo, out, ps1 = self.sh.react(line)
        return self.frag(echo + out + ps1, d)


def run_init(case):
    from . import C18
    cfg = case["cfg"]
    rng = random.Random(case["seed"])
    clock = sc.VirtualClock()
    sim = InitSim(cfg, rng)
    io = C18.RecIO(sim, clock)
    res, first = None, None
    with sc.patched_clock(clock), sc.quiet_log():
        try:
            with mk_machine(io, cfg["ash"])() as m:
                res = [0]
                t_init, w_init, n_st = clock.t, bytes(io.written), len(io.stage_log)
                unread, pr = io.unread(), bytes(m.ch.prompt)
                try:
                    first = list(m.exec("echo", "first command"))
                except Exception as e:  # noqa
                    first = ["exc", type(e).__name__]
        except tbot.error.UncleanShellError:
            res = [1]
        except TimeoutError:
            res = [2, 1]
        except cc.Blocked:
            res = [2, 2]
        except Exception as e:  # noqa
            res = [8, type(e).__name__, str(e)[:80]]
    if res == [0]:
        case["_stages"] = [[[t, d.hex()] for t, d in st] for st in io.stage_log[:n_st]]
        return [res, t_init, w_init, unread, pr, first]
    case["_stages"] = [[[t, d.hex()] for t, d in st] for st in io.stage_log]
    return [res, clock.t, bytes(io.written), io.unread(), b"", first]


class InitSuite(Suite):
    """Bash._init_shell / Ash._init_shell over a reactive console against coq/Sh.v init_shell"""
    name = "init"
    imports = ["Channel", "Hush", "Session", "Sh"]
    model_fn = "init_model"
    shard = 150

    def run(self, case):
        return run_init(case)

    def coq_input(self, case):
        ash = case["cfg"]["ash"]
        sts = [[[t, bytes.fromhex(d)] for t, d in st] for st in case["_stages"]]
        cfg = coq.lst(lambda x: coq.nlist(x.encode()), init_lines(ash), "(list N)")
        return f"({coq.nlist(ASH_BL if ash else BASH_BL)}, PS1_LINE, {cfg}, {sc.stages_coq(sts)})"

    def obs_term(self, case, obs):
        res = obs[0]
        if res == [1]:
            return "(VL [VL [VN 1]])"       # the model also reports the offending output; compared loosely below
        return coq.V([res, obs[1], obs[2], obs[3], obs[4]])

    def oracle(self, case, obs):
        cfg = case["cfg"]
        fails = []
        prompt_fast = cfg["d0"] < 150 and all(d < 150 for d in cfg["delays"]) and cfg["gap"] <= 1
        if prompt_fast:
            if obs[0] != [0]:
                fails.append(f"the shell answers every line within 0.15 s but _init_shell gave {obs[0]!r}")
            else:
                if obs[4] != TBOT_PROMPT:
                    fails.append(f"after _init_shell the channel's prompt is {obs[4]!r}")
                if obs[3]:
                    fails.append(f"console output left unread after _init_shell: {obs[3]!r}")
                if obs[5] != [0, "first command\n"]:
                    fails.append(f"the first command after _init_shell returned {obs[5]!r}")
        return fails

    def nontrivial(self, case, obs):
        return True

    def klass(self, case, obs):
        return ("ash:" if case["cfg"]["ash"] else "bash:") + str(obs[0][0])

    def gen(self, tier, rng):
        for _ in range(500 if tier == "quick" else 4000):
            slow = rng.random() < 0.3
            yield {"cfg": {"ash": rng.random() < 0.5, "banner": rng.choice(["", "Welcome\r\n", "motd: TBOTLOGIN is coming\r\n"]),
                           "d0": rng.choice([0, 0, 50, 300, 1000]) if slow else rng.choice([0, 50]),
                           "delays": [rng.choice([0, 0, 100, 250, 600, 3500]) if slow else rng.choice([0, 0, 100]) for _ in range(12)],
                           "frag": rng.choice(["whole", "random", "bytes"]), "gap": rng.choice([0, 0, 1, 40]) if slow else rng.choice([0, 1])},
                   "seed": rng.randrange(1 << 30)}


SUITES = [QuoteSuite(), ShLineSuite(), TtySuite(), InitSuite(), ExecSuite(), SlowExecSuite(), E2ESuite()]


def extra_obligations(tier):
    """the translated part of the model: regenerated from the current source and re-proved equal to what the theorems use"""
    from vlib import gen
    return gen.obligations(only=["gen_blacklists_are_the_model", "gen_prompts_are_the_model", "gen_probe_and_sanity_are_the_model", "gen_probe_loop_is_the_model", "gen_init_lines_are_the_model", "gen_status_command_is_the_model", "gen_exec0_and_test_are_the_model"])
