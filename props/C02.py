"""C02 -- read_until_prompt returns exactly the pre-prompt data for any split of the stream."""
import itertools
import re

from props import chan_common as cc

PROP = "C02"
TRUSTED = [
    "Coq 8.16.1 kernel; vm_compute for correspondence evaluation; no native_compute",
    "model coq/Channel.v (rup_loop, prompt_split, iter_step, io_read) + coq/Regex.v (backtracking matcher) hand-written; tie = correspondence on a scripted ChannelIO",
    "coq/Utf8.v model of bytes.decode('utf-8','replace'), validated against CPython",
    "python harness props/chan_common.py; CPython re.fullmatch / bytes.endswith as independent oracle",
]
ASSUMPTIONS = [
    "prompts are non-empty; regex prompts come from the modelled fragment (literals, classes, dot, concatenation, alternation, bounded greedy repetition with non-nullable body)",
    "the transport returns at least one and at most n bytes per read",
]
RULE = ("exhaustive: every stream up to the length bound over an alphabet derived from the prompt (prompt bytes, CR, LF, a filler, a UTF-8 lead/continuation pair) "
        "that ends in the prompt x EVERY composition into pieces, for literal(bytes/str)/regex prompts set on the channel or passed per call; plus random longer streams. "
        "non-trivial = a prompt prefix or look-alike occurs before the tail or a piece boundary falls inside the prompt / a CRLF / a UTF-8 sequence; distinct by case hash")

PROMPTS = [
    ({"lit": b"=> ".hex()}, b"=> "),
    ({"str": "$ "}, b"$ "),
    ({"lit": b"aa".hex()}, b"aa"),
    ({"re": cc.RE_POOL[0]}, b"12> "),
    ({"re": cc.RE_POOL[1]}, b"b>"),
    ({"re": cc.RE_POOL[2]}, b"=> "),
    ({"re": cc.RE_POOL[7]}, b">>"),
    ({"re": cc.RE_POOL[8]}, b"=> "),
    ({"re": cc.RE_POOL[8]}, b"# "),
    ({"str": "\u276f "}, "\u276f ".encode()),          # non-ASCII literal prompts (byte length != character count)
    ({"lit": "\u00e9> ".encode().hex()}, "\u00e9> ".encode()),
]

# context-sensitive regex prompts (outside the Coq regex fragment): judged by the oracle only
RAW_PROMPTS = [
    ({"raw": "^=> ", "flags": "M"}, b"=> "),
    ({"raw": "(?<=\\n)=> "}, b"=> "),
    ({"raw": "\\bU-Boot> "}, b"U-Boot> "),
    ({"raw": "(?<!a)=> "}, b"=> "),
]


def ends_with_prompt(p, buf):
    """None, or number of bytes preceding the prompt when buf ends with (a match of) p -- reference semantics"""
    if "raw" in p:
        pat = cc.sstr_py(p)
        for i in range(len(buf) + 1):
            if pat.fullmatch(buf, i):
                return i
        return None
    if "re" in p:
        pat = re.compile(cc.re_py(p["re"]))
        for i in range(len(buf) + 1):
            if pat.fullmatch(buf, i):
                return i
        return None
    b = cc.sstr_bytes(p)
    return len(buf) - len(b) if buf.endswith(b) else None


class RupSuite(cc.ChanSuite):
    name = "rup"

    def gen(self, tier, rng):
        thorough = tier == "thorough"
        maxbody = 4 if thorough else 3
        for p, tail in PROMPTS:
            alpha = sorted(set(tail) | {13, 10, ord("x")})
            if thorough:
                alpha += [0xc3, 0xa9]
            for n in range(0, maxbody + 1):
                for body in itertools.product(alpha, repeat=n):
                    stream = bytes(body) + tail
                    if len(stream) > 7:
                        continue
                    for pieces in cc.all_compositions(stream):
                        per_call = (len(pieces) + n) % 2 == 0
                        if per_call:
                            ops = [["rup", p, None]]
                        else:
                            ops = [["push_prompt", p], ["rup", None, None], ["pop"]]
                        yield {"pieces": cc.timed(pieces), "accept": [], "ops": ops}
        # random longer streams, prompt look-alikes in the middle, trailing data after the prompt in the last piece
        for _ in range(8000 if thorough else 1500):
            p, tail = rng.choice(PROMPTS)
            alpha = bytes(sorted(set(tail))) + b"\r\n x\xc3\xa9" + tail
            body = cc.rand_bytes(rng, rng.randint(0, 20), alpha)
            extra = cc.rand_bytes(rng, rng.randint(0, 3), alpha) if rng.random() < 0.2 else b""
            stream = body + tail + extra
            pieces = cc.rand_split(rng, stream, 7)
            ops = [["rup", p, None]] if rng.random() < 0.5 else [["push_prompt", p], ["rup", None, None], ["pop"]]
            if rng.random() < 0.2:
                ops = ops + [["read", -1, None]]
            yield {"pieces": cc.timed(pieces), "accept": [], "ops": ops}

    def oracle(self, case, obs):
        fails = []
        pieces = [bytes.fromhex(h) for _, h in case["pieces"]]
        prompt = None
        pos = 0  # pieces consumed so far (whole pieces only: rup reads 4096 at a time)
        for o, ob in zip(case["ops"], obs[0]):
            if o[0] == "push_prompt":
                prompt = o[1]
            elif o[0] == "pop":
                prompt = None
            elif o[0] == "read":
                pos += 1
            elif o[0] == "rup":
                p = o[1] if o[1] is not None else prompt
                buf = b""
                expect = None
                k = pos
                while k < len(pieces):
                    buf += pieces[k]
                    k += 1
                    i = ends_with_prompt(p, buf)
                    if i is not None:
                        expect = cc.py_text(buf[:i])
                        break
                r = ob[0]
                nreads = sum(1 for c in ob[3] if c[0] == 0)
                if expect is None:
                    if r != [3]:
                        fails.append(f"read_until_prompt returned {r!r} although the received data never ended with the prompt")
                else:
                    if r[0] != 1 or r[1] != expect:
                        fails.append(f"read_until_prompt result {r!r} != pre-prompt text {expect!r} (returns only when the data ends with the prompt)")
                    elif nreads != k - pos:
                        fails.append(f"read_until_prompt took {nreads} pieces from the transport, expected {k - pos}")
                pos = k
        return fails

    def nontrivial(self, case, obs):
        return len(case["pieces"]) > 1

    def klass(self, case, obs):
        o = [x for x in case["ops"] if x[0] == "rup"][0]
        p = o[1] or [x for x in case["ops"] if x[0] == "push_prompt"][0][1]
        kind = "regex" if "re" in p else ("ctx-regex" if "raw" in p else ("str" if "str" in p else "bytes"))
        return kind + ("/per-call" if o[1] is not None else "/channel")


class RupCtxSuite(RupSuite):
    """regex prompts with context-sensitive zero-width assertions (^ under MULTILINE, look-behind, \\b):
    outside the regex fragment of the Coq model, so only the independent oracle judges them"""
    name = "rup_ctx"
    model_fn = None

    def gen(self, tier, rng):
        thorough = tier == "thorough"
        for p, tail in RAW_PROMPTS:
            for _ in range(1500 if thorough else 300):
                alpha = bytes(sorted(set(tail))) + b"\n a" + tail
                body = cc.rand_bytes(rng, rng.randint(0, 12), alpha)
                sep = rng.choice([b"\n", b"\n", b" ", b""])
                stream = body + sep + tail
                pieces = cc.rand_split(rng, stream, 6)
                ops = [["rup", p, None]] if rng.random() < 0.5 else [["push_prompt", p], ["rup", None, None], ["pop"]]
                yield {"pieces": cc.timed(pieces), "accept": [], "ops": ops}
            # every composition of one short stream with a mid-line look-alike
            stream = b"a" + tail[:3] + b"\n" + tail
            if len(stream) <= 12:
                for pieces in cc.all_compositions(stream):
                    yield {"pieces": cc.timed(pieces), "accept": [], "ops": [["rup", p, None]]}


SUITES = [RupSuite(), RupCtxSuite()]
