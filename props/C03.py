"""C03 -- raw channel I/O neither loses, duplicates, reorders nor over-reads bytes."""
from props import chan_common as cc

PROP = "C03"
TRUSTED = [
    "Coq 8.16.1 kernel; vm_compute for correspondence evaluation; no native_compute",
    "model coq/Channel.v (read, read_iter_loop, readline_loop, write_loop, send_loop, sendcontrol) hand-written from channel.py; tie = correspondence on a scripted ChannelIO with a partial-write oracle",
    "python harness props/chan_common.py",
]
ASSUMPTIONS = [
    "the transport returns between 1 and n bytes per read(n) and accepts between 1 and len(buf) bytes per write",
    "no read deadline expires mid-call in the conservation statement (bytes consumed by a read that then raises are lost with that call: the API cannot return them)",
]
RULE = ("random and small exhaustive scripts interleaving read(n)/read()/read_iter(max)/readline with write/send/sendline/sendcontrol over random streams, "
        "every fragmentation of short streams, partial-write oracles 1..len, black-lists and slow-send; non-trivial = at least two pieces and two I/O operations, "
        "or a partial write; distinct by case hash")

NS = [0, 1, 2, 3, 5, 4096, 4097]


class IOSuite(cc.ChanSuite):
    name = "io"

    def gen(self, tier, rng):
        thorough = tier == "thorough"
        # exhaustive: short stream, all compositions, pairs of read ops
        rops = [["read", 1, None], ["read", 2, None], ["read", -1, None], ["read_iter", 2, None], ["read_iter", 3, None],
                ["readline", None, "0d0a"], ["readline", None, "0a"], ["read", 0, None]]
        stream = b"a\r\nb\n"
        for pieces in cc.all_compositions(stream):
            for o1 in rops:
                for o2 in rops:
                    if thorough:
                        for o3 in rops[:5]:
                            yield {"pieces": cc.timed(pieces), "accept": [], "ops": [o1, o2, o3, ["read_iter", None, None]]}
                    else:
                        yield {"pieces": cc.timed(pieces), "accept": [], "ops": [o1, o2, ["read_iter", None, None]]}
        # write side: all accept oracles for small buffers
        for ln in range(1, 5 if thorough else 4):
            buf = bytes(range(65, 65 + ln))
            import itertools
            for acc in itertools.product(range(1, ln + 1), repeat=ln):
                for slow in (None, [1, 2], [0, 1]):            # delay 0 = chunking without a pause
                    ops = ([["set_slow", slow]] if slow else []) + [["write", buf.hex()], ["send", buf.hex(), False, None]]
                    yield {"pieces": [], "accept": list(acc) * 2, "ops": ops}
        # random scripts
        for _ in range(12000 if thorough else 2500):
            stream = cc.rand_bytes(rng, rng.randint(0, 24), b"ab\r\n\xc3\xa9~")
            pieces = cc.rand_split(rng, stream, 6)
            ops = []
            for _ in range(rng.randint(1, 6)):
                x = rng.random()
                if x < 0.2:
                    ops.append(["read", rng.choice(NS[:5]), None])
                elif x < 0.3:
                    ops.append(["read", -1, None])
                elif x < 0.45:
                    ops.append(["read_iter", rng.choice([0, 1, 2, 3, 7, None]), None])
                elif x < 0.6:
                    ops.append(["readline", None, rng.choice(["0d0a", "0a", "7e", "0d0d0a"])])
                elif x < 0.68:
                    ops.append(["write", cc.rand_bytes(rng, rng.randint(0, 8), b"ab\r\n$\x03").hex()])
                elif x < 0.8:
                    big = rng.random() < 0.15
                    ln = rng.choice([511, 512, 513, 1025]) if big else rng.randint(0, 8)
                    data = cc.rand_bytes(rng, ln, b"ab\r\n$")
                    arg = {"str": data.decode() + rng.choice(["", "é", "€"])} if rng.random() < 0.3 else data.hex()
                    ops.append([rng.choice(["send", "sendline"]), arg, False, None])
                elif x < 0.85:
                    ops.append(["sendctl", rng.choice([67, 68, 64, 95, 91])])
                elif x < 0.93:
                    ops.append(["set_blacklist", rng.sample([3, 36, 13, 10, 97, 0xc3], rng.randint(0, 2))])
                else:
                    ops.append(["set_slow", rng.choice([None, [1, 1], [4, 3], [2, 32], [0, 2], [0, 1]])])
            yield {"pieces": cc.timed(pieces), "accept": [rng.randint(0, 6) for _ in range(rng.randint(0, 12))], "ops": ops}
        # big reads: requests are capped at READ_CHUNK_SIZE
        for n in ([4096, 4097, 9000] if thorough else [4097]):
            data = bytes(i % 251 for i in range(n + 5))
            yield {"pieces": cc.timed([data]), "accept": [], "ops": [["read", n, None], ["read_iter", None, None]]}
            yield {"pieces": cc.timed([data[:3000], data[3000:]]), "accept": [], "ops": [["read_iter", n, None], ["read", -1, None]]}

    def oracle(self, case, obs):
        fails = []
        stream = b"".join(bytes.fromhex(h) for _, h in case["pieces"])
        before = 0
        bl, slow = [], None
        for idx, (o, ob) in enumerate(zip(case["ops"], obs[0])):
            r, now, _s, iolog = ob
            k = o[0]
            consumed = obs[2][idx]
            seg = stream[before:consumed]
            reads = [c for c in iolog if c[0] == 0]
            writes = [c for c in iolog if c[0] == 1]
            if k == "read":
                n = o[1]
                if r[0] == 1:
                    if r[1] != seg:
                        fails.append(f"read({n}) returned {r[1]!r} but consumed {seg!r} from the transport")
                    if n >= 0 and len(r[1]) != n:
                        fails.append(f"read({n}) returned {len(r[1])} bytes")
                if n >= 0:
                    got = 0
                    for c, ch in zip(reads, obs[3][idx] + [b""] * len(reads)):
                        if c[1] > min(4096, n - got):
                            fails.append(f"read({n}) asked the transport for {c[1]} bytes with {n - got} outstanding")
                        got += len(ch)
            elif k == "read_iter":
                mx = o[1]
                chunks = r[1]
                if b"".join(chunks) != seg and r[2] == [0]:
                    fails.append(f"read_iter yielded {chunks!r} but consumed {seg!r}")
                if b"".join(chunks) != seg[:len(b"".join(chunks))]:
                    fails.append(f"read_iter yielded {chunks!r} which is not a prefix of what it consumed {seg!r}")
                if mx is not None:
                    if len(seg) > mx:
                        fails.append(f"read_iter(max={mx}) took {len(seg)} bytes from the transport")
                    got = 0
                    for c, ch in zip(reads, obs[3][idx] + [b""] * len(reads)):
                        if c[1] > min(4096, mx - got):
                            fails.append(f"read_iter(max={mx}) requested {c[1]} with {mx - got} outstanding")
                        got += len(ch)
                elif any(c[1] > 4096 for c in reads):
                    fails.append("read_iter requested more than READ_CHUNK_SIZE")
            elif k == "readline":
                le = bytes.fromhex(o[2])
                if r[0] == 1:
                    if r[1] != cc.py_text(seg):
                        fails.append(f"readline returned {r[1]!r} but consumed {seg!r}")
                    if not seg.endswith(le) or seg.find(le) != len(seg) - len(le):
                        fails.append(f"readline consumed {seg!r}: not exactly up to and including the first line ending {le!r}")
                elif le in seg:
                    # it did not return although the line ending had been consumed: it ran past the end of the line
                    fails.append(f"readline(lineending={le!r}) gave {r!r} after consuming {seg!r}, which contains the line ending")
                if any(c[1] != 1 for c in reads):
                    fails.append("readline asked the transport for more than one byte at a time")
            elif k == "set_blacklist":
                bl = list(o[1])
            elif k == "set_slow":
                slow = o[1]
            elif k in ("write", "send", "sendline", "sendctl"):
                if k == "sendctl":
                    payload = bytes([o[1] - 64]) if 64 <= o[1] <= 95 else None
                    dirty = False
                elif k == "write":
                    payload = bytes.fromhex(o[1])
                    dirty = any(b in payload for b in bl)
                else:
                    payload = o[1]["str"].encode("utf-8") if isinstance(o[1], dict) else bytes.fromhex(o[1])
                    if k == "sendline":
                        payload += b"\r"
                    dirty = any(b in payload for b in bl)
                accepted = b"".join(c[1][:c[2]] for c in writes)
                if payload is None:
                    if r != [6] or writes:
                        fails.append("sendcontrol with a non-control character reached the transport")
                    before = consumed
                    continue
                if k != "sendctl" and any(b in accepted for b in bl):
                    fails.append(f"{k}: a forbidden byte reached the transport: {accepted!r} (black-list {bl})")
                if not dirty:
                    if r != [0]:
                        fails.append(f"{k} of clean payload failed with {r!r}")
                    elif accepted != payload:
                        fails.append(f"{k} delivered {accepted!r} instead of {payload!r}")
                else:
                    if r != [5]:
                        fails.append(f"{k} of payload with forbidden byte returned {r!r} instead of IllegalDataException")
                    if k == "write":
                        clean = b""
                    else:
                        clean, i = b"", 0
                        while i < len(payload) and not any(b in payload[i:i + 512] for b in bl):
                            clean += payload[i:i + 512]
                            i += 512
                    if accepted != clean:
                        fails.append(f"{k}: what reached the transport ({len(accepted)} bytes) is not the concatenation of the leading clean slices ({len(clean)} bytes)")
                # cursor discipline: every offered buffer starts where the accepted data ends
                pos = 0
                for c in writes:
                    limit = len(payload)
                    if k in ("send", "sendline"):
                        limit = min(limit, (pos // 512 + 1) * 512)
                    if slow is not None:
                        limit = min(limit, pos + slow[1])
                    if c[1] != payload[pos:limit]:
                        fails.append(f"{k}: transport was offered {c[1][:20]!r}.. at offset {pos}, expected payload[{pos}:{limit}]")
                        break
                    pos += c[2]
            before = consumed
        # nothing over-read: unread = rest of the stream
        if obs[1][0] != stream[before:]:
            fails.append(f"unread bytes {obs[1][0]!r} != rest of stream {stream[before:]!r}")
        return fails

    def nontrivial(self, case, obs):
        nio = sum(1 for o in case["ops"] if o[0] in ("read", "read_iter", "readline", "write", "send", "sendline"))
        partial = any(c[0] == 1 and c[2] < len(c[1]) for ob in obs[0] for c in ob[3])
        return (len(case["pieces"]) >= 2 and nio >= 2) or partial

    def klass(self, case, obs):
        kinds = sorted({o[0] for o in case["ops"]})
        return "+".join(k for k in kinds if k in ("read", "read_iter", "readline", "write", "send", "sendline", "sendctl"))[:40]


SUITES = [IOSuite()]


def extra_obligations(tier):
    """the translated part of the model: regenerated from the current source and re-proved equal to what the theorems use"""
    from vlib import gen
    return gen.obligations(only=["gen_channel_constants_are_the_model"])
