"""C04 -- expect() reports the first match and accounts for every consumed byte."""
import itertools
import re

from props import chan_common as cc

PROP = "C04"
TRUSTED = [
    "Coq 8.16.1 kernel; vm_compute for correspondence evaluation; no native_compute",
    "model coq/Channel.v (expect_loop, try_patterns) + coq/Regex.v (leftmost-first backtracking search) hand-written; tie = correspondence on a scripted ChannelIO",
    "python harness props/chan_common.py; CPython bytes.find / re.search as independent oracle",
]
ASSUMPTIONS = [
    "patterns are non-empty literals or bounded regexes of the modelled fragment",
    "the transport returns at least one and at most n bytes per read",
]
RULE = ("exhaustive short streams over the patterns' alphabet x every composition x pattern pairs from a pool (overlapping, prefix-of-each-other, str/bytes/regex), "
        "plus random longer streams and timed schedules; non-trivial = a match straddles a piece boundary or two patterns match the consumed data; distinct by case hash")

POOL = [{"lit": b"ab".hex()}, {"lit": b"abc".hex()}, {"lit": b"b".hex()}, {"str": "bc"}, {"lit": b"ca".hex()},
        {"re": cc.RE_POOL[6]}, {"re": cc.RE_POOL[3]}, {"re": cc.RE_POOL[4]}, {"str": "é"}, {"re": cc.RE_POOL[7]},
        {"lit": b"\r\n".hex()}, {"re": cc.RE_POOL[1]}]


def ref_find(p, buf):
    if "re" in p:
        m = re.compile(cc.re_py(p["re"])).search(buf)
        return None if m is None else m.span()
    b = cc.sstr_bytes(p)
    i = buf.find(b)
    return None if i < 0 else (i, i + len(b))


class ExpectSuite(cc.ChanSuite):
    name = "expect"

    def gen(self, tier, rng):
        thorough = tier == "thorough"
        alpha = b"abc>"
        maxn = 5 if thorough else 4
        pairs = list(itertools.product(range(len(POOL)), repeat=2))
        for n in range(1, maxn + 1):
            for body in itertools.product(alpha, repeat=n):
                stream = bytes(body)
                comps = list(cc.all_compositions(stream))
                for (i, j) in (pairs if thorough or n <= 3 else rng.sample(pairs, 24)):
                    pats = [POOL[i]] if i == j else [POOL[i], POOL[j]]
                    for pieces in (comps if n <= 3 or thorough else rng.sample(comps, 3)):
                        yield {"pieces": cc.timed(pieces), "accept": [],
                               "ops": [["expect", pats, None], ["read", -1, None]]}
        for _ in range(10000 if thorough else 2000):
            stream = cc.rand_bytes(rng, rng.randint(1, 16), b"abc>\r\n\xc3\xa9")
            pieces = cc.rand_split(rng, stream, 6)
            gaps = [rng.choice([0, 0, 100, 600]) for _ in pieces]
            pats = [rng.choice(POOL) for _ in range(rng.randint(1, 3))]
            T = rng.choice([None, None, 500, 1024])
            ops = [["expect", pats, T]]
            if rng.random() < 0.5:
                ops.append(["expect", [rng.choice(POOL)], T])
            yield {"pieces": cc.timed(pieces, gaps), "accept": [], "ops": ops}

    def oracle(self, case, obs):
        fails = []
        pieces = [(t, bytes.fromhex(h)) for t, h in case["pieces"]]
        pos = 0
        t0 = 0
        for idx, (o, ob) in enumerate(zip(case["ops"], obs[0])):
            r, now, _s, iolog = ob
            if o[0] != "expect":
                pos += len(obs[3][idx])
                t0 = now
                continue
            pats, T = o[1], o[2]
            buf = b""
            exp = None
            k = pos
            timed_out = False
            while k < len(pieces):
                if T is not None and pieces[k][0] > t0 and pieces[k][0] >= t0 + T:
                    timed_out = True
                    break
                buf += pieces[k][1]
                k += 1
                hits = [(i, ref_find(p, buf)) for i, p in enumerate(pats)]
                hits = [(i, sp) for i, sp in hits if sp is not None]
                if hits:
                    i, (a, b) = hits[0]
                    exp = [7, i, buf[a:b], cc.py_text(buf[:a]), cc.py_text(buf[b:])]
                    break
            if exp is not None:
                if r != exp:
                    fails.append(f"expect returned {r!r}, reference (first piece with a match, lowest pattern index, first match) says {exp!r}")
                if len(obs[3][idx]) != k - pos:
                    fails.append(f"expect consumed {len(obs[3][idx])} pieces, a match existed after {k - pos}")
            else:
                want = [2] if T is not None else [3]
                if r != want:
                    fails.append(f"expect returned {r!r} although no pattern matches the data; expected {want!r}")
                if T is not None and now != t0 + T:
                    fails.append(f"expect timed out at {now}, deadline {t0 + T}")
            pos += len(obs[3][idx])
            t0 = now
        return fails

    def nontrivial(self, case, obs):
        return len(case["pieces"]) >= 2 and any(ob[0][0] == 7 for ob in obs[0])

    def klass(self, case, obs):
        r = obs[0][0][0]
        return {7: "match", 2: "timeout", 3: "blocked"}.get(r[0], "other") + f"/{len(case['ops'][0][1])}pat"


SUITES = [ExpectSuite()]
