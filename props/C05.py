"""C05 -- a registered death string aborts the read in which it completes, never earlier."""
import itertools
import re

from props import chan_common as cc

PROP = "C05"
TRUSTED = [
    "Coq 8.16.1 kernel; vm_compute for correspondence evaluation; no native_compute",
    "model coq/Channel.v (check/check_entries/check_chunks, iter_step) hand-written from channel.py:_check; tie = correspondence on scripted ChannelIO",
    "python harness props/chan_common.py (scripted transport, virtual clock); CPython re / bytes.find as independent oracle",
]
ASSUMPTIONS = [
    "death strings are non-empty literals or bounded regexes from the modelled fragment (no look-around, anchors, back-references)",
    "the transport returns at least one and at most n bytes per read",
]
RULE = ("streams over a death-string-derived alphabet x every composition into pieces (exhaustive for short streams) x read methods "
        "x sets of 1-3 registered strings x nestings; non-trivial = the stream contains an occurrence of a registered string that is "
        "preceded or followed by other data in the same piece or straddles a piece boundary; distinct by case hash")

READERS = ["read-1", "readn", "read_iter", "readline", "expect", "rup", "rut", "read1loop"]


def reader_ops(kind, total):
    if kind == "read-1":
        return [["read", -1, None] for _ in range(total + 1)]
    if kind == "readn":
        return [["read", 3, None] for _ in range(total // 3 + 2)]
    if kind == "read1loop":
        return [["read", 1, None] for _ in range(total + 1)]
    if kind == "read_iter":
        return [["read_iter", None, None]]
    if kind == "readline":
        return [["readline", None, "7e"] for _ in range(2)]
    if kind == "expect":
        return [["expect", [{"lit": "7e7e7e"}], None]]
    if kind == "rup":
        return [["rup", {"lit": "7e7e7e"}, None]]
    if kind == "rut":
        return [["rut", 4096]]
    raise ValueError(kind)


def occurrences_end(s, data):
    """smallest end offset of an occurrence of search string s in data (None if absent)"""
    if "re" in s:
        pat = re.compile(cc.re_py(s["re"]))
        best = None
        for i in range(len(data) + 1):
            for j in range(i, len(data) + 1):
                if pat.fullmatch(data, i, j):
                    if best is None or j < best:
                        best = j
                    break
        return best
    b = cc.sstr_bytes(s)
    i = data.find(b)
    return None if i < 0 else i + len(b)


class DeathSuite(cc.ChanSuite):
    name = "death"

    def gen(self, tier, rng):
        thorough = tier == "thorough"
        # ---- exhaustive: one literal string, every composition, every reader
        strings = [b"ab", b"aba", b"x"] + ([b"abc", b"aa"] if thorough else [])
        maxlen = 7 if thorough else 6
        for ds in strings:
            alpha = sorted(set(ds)) + [ord("y")]
            for pre in range(0, 2 * len(ds) + 2):
                for post in range(0, 2 * len(ds) + 2):
                    if pre + len(ds) + post > (9 if thorough else 8):
                        continue
                    data = b"y" * pre + ds + bytes([alpha[0]]) * post
                    comps = list(cc.all_compositions(data)) if len(data) <= maxlen else \
                        [cc.rand_split(rng, data) for _ in range(12 if thorough else 4)] + [[data]]
                    for pieces in comps:
                        for rd in (READERS if len(pieces) <= 2 or thorough else ["read-1", "read_iter", "rup"]):
                            yield {"pieces": cc.timed(pieces), "accept": [],
                                   "ops": [["push_death", {"lit": ds.hex()}, 0]] + reader_ops(rd, len(data)),
                                   "meta": {"reader": rd}}
        # ---- sets of strings of different lengths, regex strings, nestings, data before registration
        n = 6000 if thorough else 1500
        pool = [{"lit": b"ab".hex()}, {"lit": b"abab".hex()}, {"lit": b"b".hex()}, {"lit": b"bba".hex()},
                {"str": "ba"}, {"re": cc.RE_POOL[6]}, {"re": cc.RE_POOL[1]}, {"re": cc.RE_POOL[3]}]
        for _ in range(n):
            k = rng.randint(1, 3)
            regs = [rng.choice(pool) for _ in range(k)]
            data = cc.rand_bytes(rng, rng.randint(1, 14), b"abyy>")
            pieces = cc.rand_split(rng, data, 5)
            ops = []
            # optional read before registration (data before registration must not count)
            if rng.random() < 0.3:
                ops.append(["read", rng.randint(1, 3), None])
            for i, s in enumerate(regs):
                ops.append(["push_death", s, i])
            rd = rng.choice(READERS)
            body = reader_ops(rd, len(data))
            if rng.random() < 0.3 and len(regs) > 1:
                # end the innermost registration half way
                body = body[: max(1, len(body) // 2)] + [[rng.choice(["pop", "pop_exc"])]] + body[max(1, len(body) // 2):]
            ops += body
            yield {"pieces": cc.timed(pieces), "accept": [], "ops": ops, "meta": {"reader": rd}}
        yield from self.gen_nonlifo(tier, rng)
        yield from self.gen_siblings(tier, rng)
        yield from self.gen_left_by_exception(tier, rng)

    def gen_siblings(self, tier, rng):
        """sibling contexts: a long string is watched while something is read, its context ends, then a short string
        is registered (the number of registrations is the same again) and occurs followed by more than its own length of
        data in one piece"""
        for _ in range(1500 if tier == "thorough" else 300):
            long_s = rng.choice([b"Kernel panic - not syncing", b"aaaaaaaaaaaa", b"ERROR: long message"])
            short = rng.choice([b"ab", b"yy", b"Oops"])
            first = cc.rand_bytes(rng, rng.randint(1, 6), b"xz\n ")
            pre = cc.rand_bytes(rng, rng.randint(0, 5), b"xz\n ")
            post = cc.rand_bytes(rng, rng.randint(len(short) + 1, 3 * len(short) + 4), b"xz\n ")
            second = pre + short + post
            rd = rng.choice(READERS)
            ops = [["push_death", {"lit": long_s.hex()}, 0], ["read", len(first), None], [rng.choice(["pop", "pop_exc"])],
                   ["push_death", {"lit": short.hex()}, 1]] + reader_ops(rd, len(second))
            pieces = [first] + ([second] if rng.random() < 0.6 else cc.rand_split(rng, second, 3))
            yield {"pieces": cc.timed(pieces), "accept": [], "ops": ops, "meta": {"reader": rd, "kind": "siblings"}}

    def gen_left_by_exception(self, tier, rng):
        """a registration context left by an exception raised in its body: the string is no longer watched afterwards,
        whatever reads follow (nested: the outer one still is)"""
        for _ in range(600 if tier == "thorough" else 150):
            inner = rng.choice([b"ab", b"tee: ", b"Login incorrect"])
            outer = rng.choice([b"Kernel panic", b"yyy"])
            first = cc.rand_bytes(rng, rng.randint(1, 6), b"xz\n ")
            tail = cc.rand_bytes(rng, rng.randint(0, 4), b"xz\n ") + inner + cc.rand_bytes(rng, rng.randint(0, 6), b"xz\n ")
            if rng.random() < 0.4:
                tail += outer + b"zz"
            rd = rng.choice(READERS)
            nested = rng.random() < 0.5
            ops = ([["push_death", {"lit": outer.hex()}, 1]] if nested else []) + \
                [["push_death", {"lit": inner.hex()}, 0], ["read", len(first), None], ["pop_exc"]] + reader_ops(rd, len(tail))
            pieces = [first] + ([tail] if rng.random() < 0.5 else cc.rand_split(rng, tail, 3))
            yield {"pieces": cc.timed(pieces), "accept": [], "ops": ops, "meta": {"reader": rd, "kind": "left-by-exception"}}

    def gen_nonlifo(self, tier, rng):
        """registrations that are not undone in LIFO order: add_death_string (permanent) inside a context,
        contexts left in FIFO order; the string whose context ended must be silent, the others still watched"""
        pool = [{"lit": b"ab".hex()}, {"lit": b"ba".hex()}, {"lit": b"yy".hex()}, {"lit": b"b>".hex()}, {"str": "aa"}]
        for _ in range(3000 if tier == "thorough" else 600):
            regs = rng.sample(pool, 3)
            ops = []
            n_ctx = 0
            for i, sx in enumerate(regs):
                if rng.random() < 0.4:
                    ops.append(["add_death", sx, i])
                else:
                    ops.append(["push_death", sx, i])
                    n_ctx += 1
            data = cc.rand_bytes(rng, rng.randint(2, 12), b"abyy>")
            if n_ctx:
                ops.append(["pop_at", rng.randint(0, n_ctx - 1)])
            rd = rng.choice(READERS)
            ops += reader_ops(rd, len(data))
            yield {"pieces": cc.timed(cc.rand_split(rng, data, 4)), "accept": [], "ops": ops,
                   "meta": {"reader": rd, "kind": "nonlifo"}}

    # ---- independent oracle on the implementation's observation
    def oracle(self, case, obs):
        fails = []
        stream = b"".join(bytes.fromhex(h) for _, h in case["pieces"])
        consumed = 0
        active = []      # (search string, exc id, offset of registration)
        stack = []
        done = False     # after the first death exception we stop judging (ring contents are then stale by design)
        for idx, (o, ob) in enumerate(zip(case["ops"], obs[0])):
            r, _now, _streams, iolog = ob
            if r[0] == 8:
                r = r[2]
            k = o[0]
            got = sum(0 for _ in ())  # placeholder
            # bytes consumed from the transport by this op = sum of bytes delivered; recompute from unread at the end
            # we track per-op consumption through the io log: each read call of size n delivered min(n, head) bytes;
            # easier: recompute from the data returned is impossible for raising ops, so use the transport replay below
            if k == "push_death":
                active.insert(0, (o[1], o[2], consumed, idx))
                stack.append(idx)
                continue
            if k == "add_death":
                active.insert(0, (o[1], o[2], consumed, idx))
                continue
            if k in ("pop", "pop_exc"):
                if stack:
                    rid = stack.pop()
                    active = [a for a in active if a[3] != rid]
                continue
            if k == "pop_at":
                if o[1] < len(stack):
                    rid = stack.pop(len(stack) - 1 - o[1])
                    active = [a for a in active if a[3] != rid]
                continue
            if k not in ("read", "read_iter", "readline", "expect", "rup", "rut"):
                continue
            before = consumed
            consumed = obs[2][idx]
            if done:
                continue
            # expected: does some active string's first occurrence (in data since its registration) end in (before, consumed] ?
            due = []
            for s, eid, reg, _rid in active:
                e = occurrences_end(s, stream[reg:consumed])
                if e is not None:
                    due.append((reg + e, eid, s))
            if r[0] == 4:
                done = True
                if not due:
                    fails.append(f"death exception raised by {k} although no registered string occurs in the data "
                                 f"received since registration (consumed {consumed})")
                elif r[1] not in [eid for _, eid, _ in due]:
                    fails.append(f"death exception of the wrong registration raised by {k}")
            else:
                if due:
                    done = True
                    fails.append(f"{k} consumed the last byte of an occurrence of a registered death string "
                                 f"(ends at offset {min(d[0] for d in due)}, consumed {before}->{consumed}) "
                                 f"but raised nothing")
        return fails

    def nontrivial(self, case, obs):
        return any(ob[0][0] == 4 or (ob[0][0] == 8 and ob[0][2][0] == 4) for ob in obs[0]) and len(case["pieces"]) >= 1 and \
            any(len(bytes.fromhex(h)) > 1 for _, h in case["pieces"])

    def klass(self, case, obs):
        return case.get("meta", {}).get("reader", "?") + ("/raised" if any(ob[0][0] == 4 for ob in obs[0]) else "/silent")

    def finding_key(self, case, obs, failure):
        return None


def ob_consumed(case, before, iolog):
    """bytes delivered by the scripted transport for the read calls in iolog, starting at stream offset `before`
    (replays the piece structure: a read of n delivers min(n, rest of current piece))"""
    # rebuild piece boundaries
    bounds = []
    pos = 0
    for _, h in case["pieces"]:
        pos += len(h) // 2
        bounds.append(pos)
    cur = before
    for call in iolog:
        if call[0] != 0:
            continue
        n = call[1]
        nxt = next((b for b in bounds if b > cur), None)
        if nxt is None:
            break
        cur += min(n, nxt - cur)
    return cur - before


SUITES = [DeathSuite()]
