"""C06 -- timeouts are overall deadlines (virtual time)."""
from props import chan_common as cc

PROP = "C06"
TRUSTED = [
    "Coq 8.16.1 kernel; vm_compute for correspondence evaluation; no native_compute",
    "model coq/Channel.v (iter_step deadline arithmetic, io_read timed transport) hand-written; tie = correspondence under a virtual clock substituted for channel.py's `time` module",
    "virtual time only: the interpreter's own latency and the OS scheduler are not modelled (property decided partially: see DESIGN.md C06)",
]
ASSUMPTIONS = [
    "the ChannelIO honours its own timeout argument exactly (scripted transport); time advances only inside ChannelIO.read and time.sleep",
    "timeouts and arrival times are multiples of 2^-10 s so that float arithmetic is exact",
]
RULE = ("timed schedules (piece sizes x inter-arrival gaps incl. steady trickles with gaps < T lasting >> T and arrivals exactly at the deadline) x T x "
        "operations read(n)/read_iter/readline/expect/read_until_prompt/read_until_timeout/send(read_back); non-trivial = the operation sees at least two "
        "pieces arriving at different times or its deadline falls strictly between two arrivals; distinct by case hash")


def arrivals(case):
    out, pos = [], 0
    for t, h in case["pieces"]:
        n = len(h) // 2
        out.append((t, pos, pos + n))
        pos += n
    return out


class TimeSuite(cc.ChanSuite):
    name = "time"

    def gen(self, tier, rng):
        thorough = tier == "thorough"
        n = 30000 if thorough else 4000
        Ts = [None, 1, 100, 512, 1000, 1024, 4096]
        for i in range(n):
            T = rng.choice(Ts)
            base = T if T else 1000
            style = rng.choice(["trickle", "burst", "edge", "random"])
            pieces, t = [], 0
            k = rng.randint(0, 8)
            for j in range(k):
                if style == "trickle":
                    t += max(1, base // 3)
                elif style == "burst":
                    t += rng.choice([0, 0, base // 2])
                elif style == "edge":
                    t += rng.choice([base, base - 1, base + 1, base // 2, 0])
                else:
                    t += rng.randint(0, 2 * base)
                pieces.append([t, cc.rand_bytes(rng, rng.randint(1, 5), b"ab>\r\n ~").hex()])
            kind = rng.choice(["read", "read_iter", "readline", "expect", "rup", "rut", "send", "read-1"])
            if kind == "read":
                op = ["read", rng.choice([1, 2, 5, 9, 20]), T]
            elif kind == "read-1":
                op = ["read", -1, T]
            elif kind == "read_iter":
                op = ["read_iter", rng.choice([None, 4, 11]), T]
            elif kind == "readline":
                op = ["readline", T, rng.choice(["0d0a", "0a", "7e"])]
            elif kind == "expect":
                op = ["expect", [{"lit": "7e"}, {"re": cc.RE_POOL[1]}], T]
            elif kind == "rup":
                op = ["rup", {"lit": "3e20"}, T]
            elif kind == "rut":
                op = ["rut", T if T is not None else 700]
            else:
                ln = rng.choice([1, 3, 600, 1030]) if thorough or i % 7 == 0 else rng.choice([1, 3, 5])
                op = ["send", (b"ab\r\nc" * (ln // 5 + 1))[:ln].hex(), True, T]
            ops = [op]
            if rng.random() < 0.3:
                ops.append(["rut", rng.choice([1, 300, 2048])])
            if rng.random() < 0.1 and kind == "send":
                ops.insert(0, ["set_slow", [rng.choice([1, 16]), rng.choice([1, 64])]])
            yield {"pieces": pieces, "accept": [], "ops": ops}
        yield from self.gen_send(tier, rng)

    def gen_send(self, tier, rng):
        """send(read_back, T) of multi-slice payloads whose echo arrives slice by slice"""
        for i in range(400 if tier == "thorough" else 80):
            nsl = rng.randint(2, 3)
            ln = 512 * (nsl - 1) + rng.randint(1, 512)
            payload = bytes(rng.choice(b"abc d") for _ in range(ln))
            T = rng.choice([100, 1024, 4096])
            t, pieces = 0, []
            missing = rng.randint(1, nsl) if rng.random() < 0.7 else None   # which slice's echo never (fully) arrives
            for k in range(nsl):
                sl = payload[512 * k: 512 * (k + 1)]
                t += rng.choice([0, T // 2, T - 1, (3 * T) // 4])
                if missing == k + 1:
                    sl = sl[: rng.randint(0, len(sl) - 1)]
                    if sl:
                        pieces.append([t, sl.hex()])
                    break
                pieces.append([t, sl.hex()])
            yield {"pieces": pieces, "accept": [], "ops": [["send", payload.hex(), True, T], ["rut", 1]]}

    def oracle(self, case, obs):
        fails = []
        arr = arrivals(case)
        stream = b"".join(bytes.fromhex(h) for _, h in case["pieces"])
        consumed = 0
        t0 = 0
        slow = False
        for idx, (o, ob) in enumerate(zip(case["ops"], obs[0])):
            r, now, _s, iolog = ob
            if r[0] == 8:
                r = r[2]
            k = o[0]
            if k == "set_slow":
                slow = o[1] is not None
            T = {"read": lambda: o[2], "read_iter": lambda: o[2], "readline": lambda: o[1], "expect": lambda: o[2],
                 "rup": lambda: o[2], "rut": lambda: o[1], "send": lambda: o[3]}.get(k, lambda: "na")()
            if T == "na":
                t0 = now
                continue
            before = consumed
            consumed = obs[2][idx]
            wtime = 0
            if T is None:
                if r == [2] and k != "rut":
                    fails.append(f"{k} raised TimeoutError although no timeout was given")
            else:
                dl = t0 + T
                if slow and k == "send":
                    pass  # writes sleep; only compared with the model
                elif k == "rut":
                    if r[0] != 1:
                        fails.append(f"read_until_timeout raised {r!r}")
                    else:
                        if now != dl:
                            fails.append(f"read_until_timeout({T}) called at {t0} returned at {now}, not at its deadline {dl}")
                        want = b"".join(stream[max(a, before):b] for (t, a, b) in arr if t < dl and b > before)
                        if r[1] != cc.py_text(want):
                            fails.append(f"read_until_timeout({T}) at {t0} returned {r[1]!r}, data arrived before the deadline: {want!r}")
                else:
                    if r == [2]:
                        if now < dl:
                            fails.append(f"{k} raised TimeoutError at {now}, before its deadline {dl} (called at {t0}, T={T})")
                        if now > dl:
                            fails.append(f"{k} blocked until {now}, later than its deadline {dl} (called at {t0}, T={T})")
                    else:
                        if now > dl:
                            fails.append(f"{k} returned at {now}, later than its deadline {dl} (called at {t0}, T={T})")
            # returns immediately when its condition becomes true: time of return = arrival of the last piece touched
            if r[0] in (0, 1, 7) and k != "rut" and not (slow and k == "send") and consumed > before:
                last_t = max(t for (t, a, b) in arr if a < consumed and b > before)
                if now != max(t0, last_t):
                    fails.append(f"{k} returned at {now} but the data that satisfied it had arrived at {max(t0, last_t)}")
            t0 = now
        return fails

    @staticmethod
    def _consumed(case, before, iolog):
        from props.C05 import ob_consumed
        return ob_consumed(case, before, iolog)

    def nontrivial(self, case, obs):
        ts = {t for t, _ in case["pieces"]}
        return len(ts) >= 2

    def klass(self, case, obs):
        o = case["ops"][0] if case["ops"][0][0] != "set_slow" else case["ops"][1]
        r = obs[0][0][0] if case["ops"][0][0] != "set_slow" else obs[0][1][0]
        if r[0] == 8:
            r = r[2]
        return o[0] + {0: "/ok", 1: "/ok", 7: "/ok", 2: "/timeout", 3: "/blocked"}.get(r[0], "/other")

    def finding_key(self, case, obs, failure):
        return None


class FloodSuite(cc.ChanSuite):
    """A source that floods (data is always already pending) while every look at the clock costs `tick`:
    the operation must still end within T (+ the few clock reads of one loop iteration).  The Coq model has no
    tick, so this suite is judged by the oracle only."""
    name = "flood"
    model_fn = None

    def gen(self, tier, rng):
        for i in range(600 if tier == "thorough" else 120):
            tick = rng.choice([1, 2, 5, 8])
            T = rng.choice([40, 100, 200])
            npieces = rng.randint(150, 400)
            pieces = [[0, cc.rand_bytes(rng, rng.randint(1, 3), b"ab\n ").hex()] for _ in range(npieces)]
            kind = rng.choice(["read", "read_iter", "readline", "expect", "rup", "rut"])
            op = {"read": ["read", 4000, T], "read_iter": ["read_iter", None, T], "readline": ["readline", T, "7e7e"],
                  "expect": ["expect", [{"lit": "7e7e"}], T], "rup": ["rup", {"lit": "7e7e"}, T], "rut": ["rut", T]}[kind]
            yield {"pieces": pieces, "accept": [], "ops": [op], "tick": tick}

    def oracle(self, case, obs):
        fails = []
        tick = case["tick"]
        o, ob = case["ops"][0], obs[0][0]
        r, now = ob[0], ob[1]
        if r[0] == 8:
            r = r[2]
        T = o[1] if o[0] in ("readline", "rut") else o[2]
        if now > T + 4 * tick:
            fails.append(f"{o[0]} with timeout {T} went on until {now} while data kept arriving (clock tick {tick}); "
                         f"it must end by T plus the clock reads of one iteration ({T + 4 * tick})")
        if r == [2] and now < T:
            fails.append(f"{o[0]} raised TimeoutError at {now}, before T={T}")
        if o[0] == "rut" and r[0] != 1:
            fails.append(f"read_until_timeout raised {r!r}")
        return fails

    def nontrivial(self, case, obs):
        return True

    def klass(self, case, obs):
        return case["ops"][0][0]


SUITES = [TimeSuite(), FloodSuite()]
