"""C06 -- timeouts are overall deadlines (virtual time)."""
from props import chan_common as cc

PROP = "C06"
TRUSTED = [
    "Coq 8.16.1 kernel; vm_compute for correspondence evaluation; no native_compute",
    "model coq/Channel.v (iter_step deadline arithmetic, io_read timed transport) hand-written; tie = correspondence under a virtual clock substituted for channel.py's `time` module",
    "virtual time only: the interpreter's own latency and the OS scheduler are not modelled (property decided partially: see DESIGN.md C06)",
]
ASSUMPTIONS = [
    "the ChannelIO honours its own timeout argument exactly (scripted transport); time advances only inside ChannelIO.read and time.sleep",
    "timeouts and arrival times are multiples of 2^-10 s so that float arithmetic is exact",
]
RULE = ("timed schedules (piece sizes x inter-arrival gaps incl. steady trickles with gaps < T lasting >> T and arrivals exactly at the deadline) x T x "
        "operations read(n)/read_iter/readline/expect/read_until_prompt/read_until_timeout/send(read_back); non-trivial = the operation sees at least two "
        "pieces arriving at different times or its deadline falls strictly between two arrivals; distinct by case hash")


def arrivals(case):
    out, pos = [], 0
    for t, h in case["pieces"]:
        n = len(h) // 2
        out.append((t, pos, pos + n))
        pos += n
    return out


class TimeSuite(cc.ChanSuite):
    name = "time"

    def gen(self, tier, rng):
        thorough = tier == "thorough"
        n = 30000 if thorough else 4000
        Ts = [None, 1, 100, 512, 1000, 1024, 4096]
        for i in range(n):
            T = rng.choice(Ts)
            base = T if T else 1000
            style = rng.choice(["trickle", "burst", "edge", "random"])
            pieces, t = [], 0
            k = rng.randint(0, 8)
            for j in range(k):
                if style == "trickle":
                    t += max(1, base // 3)
                elif style == "burst":
                    t += rng.choice([0, 0, base // 2])
                elif style == "edge":
                    t += rng.choice([base, base - 1, base + 1, base // 2, 0])
                else:
                    t += rng.randint(0, 2 * base)
                pieces.append([t, cc.rand_bytes(rng, rng.randint(1, 5), b"ab>\r\n ~").hex()])
            kind = rng.choice(["read", "read_iter", "readline", "expect", "rup", "rut", "send", "read-1"])
            if kind == "read":
                op = ["read", rng.choice([1, 2, 5, 9, 20]), T]
            elif kind == "read-1":
                op = ["read", -1, T]
            elif kind == "read_iter":
                op = ["read_iter", rng.choice([None, 4, 11]), T]
            elif kind == "readline":
                op = ["readline", T, rng.choice(["0d0a", "0a", "7e"])]
            elif kind == "expect":
                op = ["expect", [{"lit": "7e"}, {"re": cc.RE_POOL[1]}], T]
            elif kind == "rup":
                op = ["rup", {"lit": "3e20"}, T]
            elif kind == "rut":
                op = ["rut", T if T is not None else 700]
            else:
                ln = rng.choice([1, 3, 600, 1030]) if thorough or i % 7 == 0 else rng.choice([1, 3, 5])
                op = ["send", (b"ab\r\nc" * (ln // 5 + 1))[:ln].hex(), True, T]
            ops = [op]
            if rng.random() < 0.3:
                ops.append(["rut", rng.choice([1, 300, 2048])])
            if rng.random() < 0.1 and kind == "send":
                ops.insert(0, ["set_slow", [rng.choice([1, 16]), rng.choice([1, 64])]])
            yield {"pieces": pieces, "accept": [], "ops": ops}
        yield from self.gen_send(tier, rng)

    def gen_send(self, tier, rng):
        """send(read_back, T) of multi-slice payloads whose echo arrives slice by slice"""
        for i in range(400 if tier == "thorough" else 80):
            nsl = rng.randint(2, 3)
            ln = 512 * (nsl - 1) + rng.randint(1, 512)
            payload = bytes(rng.choice(b"abc d") for _ in range(ln))
            T = rng.choice([100, 1024, 4096])
            t, pieces = 0, []
            missing = rng.randint(1, nsl) if rng.random() < 0.7 else None   # which slice's echo never (fully) arrives
            for k in range(nsl):
                sl = payload[512 * k: 512 * (k + 1)]
                t += rng.choice([0, T // 2, T - 1, (3 * T) // 4])
                if missing == k + 1:
                    sl = sl[: rng.randint(0, len(sl) - 1)]
                    if sl:
                        pieces.append([t, sl.hex()])
                    break
                pieces.append([t, sl.hex()])
            yield {"pieces": pieces, "accept": [], "ops": [["send", payload.hex(), True, T], ["rut", 1]]}

    def oracle(self, case, obs):
        fails = []
        arr = arrivals(case)
        stream = b"".join(bytes.fromhex(h) for _, h in case["pieces"])
        consumed = 0
        t0 = 0
        slow = False
        for idx, (o, ob) in enumerate(zip(case["ops"], obs[0])):
            r, now, _s, iolog = ob
            if r[0] == 8:
                r = r[2]
            k = o[0]
            if k == "set_slow":
                slow = o[1] is not None
            T = {"read": lambda: o[2], "read_iter": lambda: o[2], "readline": lambda: o[1], "expect": lambda: o[2],
                 "rup": lambda: o[2], "rut": lambda: o[1], "send": lambda: o[3]}.get(k, lambda: "na")()
            if T == "na":
                t0 = now
                continue
            before = consumed
            consumed = obs[2][idx]
            wtime = 0
            if T is None:
                if r == [2] and k != "rut":
                    fails.append(f"{k} raised TimeoutError although no timeout was given")
            else:
                dl = t0 + T
                if slow and k == "send":
                    pass  # writes sleep; only compared with the model
                elif k == "rut":
                    if r[0] != 1:
                        fails.append(f"read_until_timeout raised {r!r}")
                    else:
                        if now != dl:
                            fails.append(f"read_until_timeout({T}) called at {t0} returned at {now}, not at its deadline {dl}")
                        want = b"".join(stream[max(a, before):b] for (t, a, b) in arr if t < dl and b > before)
                        if r[1] != cc.py_text(want):
                            fails.append(f"read_until_timeout({T}) at {t0} returned {r[1]!r}, data arrived before the deadline: {want!r}")
                else:
                    if r == [2]:
                        if now < dl:
                            fails.append(f"{k} raised TimeoutError at {now}, before its deadline {dl} (called at {t0}, T={T})")
                        if now > dl:
                            fails.append(f"{k} blocked until {now}, later than its deadline {dl} (called at {t0}, T={T})")
                    else:
                        if now > dl:
                            fails.append(f"{k} returned at {now}, later than its deadline {dl} (called at {t0}, T={T})")
            # returns immediately when its condition becomes true: time of return = arrival of the last piece touched
            if r[0] in (0, 1, 7) and k != "rut" and not (slow and k == "send") and consumed > before:
                last_t = max(t for (t, a, b) in arr if a < consumed and b > before)
                if now != max(t0, last_t):
                    fails.append(f"{k} returned at {now} but the data that satisfied it had arrived at {max(t0, last_t)}")
            t0 = now
        return fails

    @staticmethod
    def _consumed(case, before, iolog):
        from props.C05 import ob_consumed
        return ob_consumed(case, before, iolog)

    def nontrivial(self, case, obs):
        ts = {t for t, _ in case["pieces"]}
        return len(ts) >= 2

    def klass(self, case, obs):
        o = case["ops"][0] if case["ops"][0][0] != "set_slow" else case["ops"][1]
        r = obs[0][0][0] if case["ops"][0][0] != "set_slow" else obs[0][1][0]
        if r[0] == 8:
            r = r[2]
        return o[0] + {0: "/ok", 1: "/ok", 7: "/ok", 2: "/timeout", 3: "/blocked"}.get(r[0], "/other")

    def finding_key(self, case, obs, failure):
        return None


class FloodSuite(cc.ChanSuite):
    """A source that floods (data is always already pending) while every look at the clock costs `tick`:
    the operation must still end within T (+ the few clock reads of one loop iteration).  The Coq model has no
    tick, so this suite is judged by the oracle only."""
    name = "flood"
    model_fn = None

    def gen(self, tier, rng):
        for i in range(600 if tier == "thorough" else 120):
            tick = rng.choice([1, 2, 5, 8])
            T = rng.choice([40, 100, 200])
            npieces = rng.randint(150, 400)
            pieces = [[0, cc.rand_bytes(rng, rng.randint(1, 3), b"ab\n ").hex()] for _ in range(npieces)]
            kind = rng.choice(["read", "read_iter", "readline", "expect", "rup", "rut"])
            op = {"read": ["read", 4000, T], "read_iter": ["read_iter", None, T], "readline": ["readline", T, "7e7e"],
                  "expect": ["expect", [{"lit": "7e7e"}], T], "rup": ["rup", {"lit": "7e7e"}, T], "rut": ["rut", T]}[kind]
            yield {"pieces": pieces, "accept": [], "ops": [op], "tick": tick}

    def oracle(self, case, obs):
        fails = []
        tick = case["tick"]
        o, ob = case["ops"][0], obs[0][0]
        r, now = ob[0], ob[1]
        if r[0] == 8:
            r = r[2]
        T = o[1] if o[0] in ("readline", "rut") else o[2]
        if now > T + 4 * tick:
            fails.append(f"{o[0]} with timeout {T} went on until {now} while data kept arriving (clock tick {tick}); "
                         f"it must end by T plus the clock reads of one iteration ({T + 4 * tick})")
        if r == [2] and now < T:
            fails.append(f"{o[0]} raised TimeoutError at {now}, before T={T}")
        if o[0] == "rut" and r[0] != 1:
            fails.append(f"read_until_timeout raised {r!r}")
        return fails

    def nontrivial(self, case, obs):
        return True

    def klass(self, case, obs):
        return case["ops"][0][0]




class LatencySuite(cc.ChanSuite):
    """A transport that needs `latency` to hand data over and still delivers what arrives exactly at the end of its
    wait (like select()): an operation whose condition is fulfilled by what it has consumed returns -- it never raises
    TimeoutError with the data that satisfied it in hand (and lost).  The Coq transport has no latency: oracle only."""
    name = "latency"
    model_fn = None

    def gen(self, tier, rng):
        for i in range(3000 if tier == "thorough" else 500):
            lat = rng.choice([1, 2, 8])
            T = rng.choice([64, 100, 512, 1024])
            kind = rng.choice(["read", "readline", "expect", "rup", "send"])
            data = {"read": b"abcdef", "readline": b"abc\r\n", "expect": b"xx~", "rup": b"out> ", "send": b"abc d"}[kind]
            cuts = sorted(rng.sample(range(1, len(data)), rng.randint(0, 2)))
            parts = [data[a:b] for a, b in zip([0] + cuts, cuts + [len(data)])]
            last_t = rng.choice([T, T, T - lat // 2, T - 1, T - lat, T // 2])
            times = sorted(rng.randint(0, last_t) for _ in parts[:-1]) + [last_t]
            pieces = [[t, p.hex()] for t, p in zip(times, parts)]
            op = {"read": ["read", len(data), T], "readline": ["readline", T, "0d0a"], "expect": ["expect", [{"lit": "7e"}], T],
                  "rup": ["rup", {"lit": "3e20"}, T], "send": ["send", data.hex(), True, T]}[kind]
            yield {"pieces": pieces, "accept": [], "ops": [op], "latency": lat, "want": data.hex()}

    def oracle(self, case, obs):
        fails = []
        o, ob = case["ops"][0], obs[0][0]
        r, now = ob[0], ob[1]
        if r[0] == 8:
            r = r[2]
        consumed = obs[2][0]
        want = bytes.fromhex(case["want"])
        if r == [2] and consumed >= len(want):
            fails.append(f"{o[0]} raised TimeoutError at {now} although the {consumed} bytes it had consumed fulfil its condition "
                         f"({want!r}, last piece at {case['pieces'][-1][0]}, transport latency {case['latency']}): the data is lost")
        if r[0] in (0, 1, 7) and consumed < len(want):
            fails.append(f"{o[0]} returned {r!r} after {consumed} of {len(want)} bytes")
        return fails

    def nontrivial(self, case, obs):
        return True

    def klass(self, case, obs):
        r = obs[0][0][0]
        if r[0] == 8:
            r = r[2]
        return case["ops"][0][0] + {0: "/ok", 1: "/ok", 7: "/ok", 2: "/timeout", 3: "/blocked"}.get(r[0], "/other")

    def finding_key(self, case, obs, failure):
        return None


# ------------------------------------------------------------------ SubprocessChannelIO.read: the select loop
import tbot.machine.channel.subprocess as spmod   # noqa: E402
import tbot.error as terr                          # noqa: E402
from vlib import coq as _coq                        # noqa: E402
from vlib.framework import Suite as _Suite          # noqa: E402

SUB_UNIT = 5120.0     # time unit of coq/SubIO.v: 1/5120 s (0.3 s = 1536 units)


class _World:
    """scripted world for one SubprocessChannelIO.read call: readable at `ready`, process exits at `dies` (seconds)"""

    def __init__(self, now, ready, dies):
        self.t = now
        self.ready = ready
        self.dies = dies
        self.selects = 0

    # time module
    def monotonic(self):
        return self.t

    # select module
    def select(self, r, w, x, timeout=None):
        self.selects += 1
        if self.selects > 200000:
            raise cc.Blocked()
        if self.ready is not None and self.ready <= self.t + timeout:
            self.t = max(self.t, self.ready)
            return (list(r), [], [])
        self.t = self.t + timeout
        return ([], [], [])

    # os module
    def read(self, fd, n):
        if self.ready is not None and self.ready <= self.t:
            return b"x"
        raise BlockingIOError()

    # process object
    def poll(self):
        return None

    @property
    def returncode(self):
        return 0 if (self.dies is not None and self.dies <= self.t) else None


class SubIOSuite(_Suite):
    name = "subio"
    imports = ["SubIO"]
    model_fn = "subio_model"
    shard = 500

    def run(self, case):
        u = lambda x: None if x is None else x / 1024.0       # noqa: E731  (the case is in 1/1024 s, dyadic)
        w = _World(u(case["now"]), u(case["ready"]), u(case["dies"]))
        io = object.__new__(spmod.SubprocessChannelIO)
        io.pty_master = 99
        io.p = w
        saved = (spmod.select, spmod.os, spmod.time, spmod.channel._debug_log)
        spmod.select, spmod.os, spmod.time = w, w, w
        spmod.channel._debug_log = lambda self_, data, is_write=False: data
        try:
            try:
                io.read(7, u(case["timeout"]))
                kind = 0
            except TimeoutError:
                kind = 1
            except terr.ChannelClosedError:
                kind = 2 if not (w.dies is not None and w.dies <= u(case["now"])) else 4
            except cc.Blocked:
                return [9]
        finally:
            spmod.select, spmod.os, spmod.time, spmod.channel._debug_log = saved
        return [kind, round(w.t * SUB_UNIT)]

    def coq_input(self, case):
        f = lambda x: _coq.opt(lambda v: _coq.z(5 * v), x, "Z")     # noqa: E731
        return f"({f(case['timeout'])}, {_coq.z(5 * case['now'])}, {f(case['ready'])}, {f(case['dies'])})"

    def oracle(self, case, obs):
        # C06 on the transport: never later than T, never TimeoutError before T, immediately when readable
        fails = []
        T, now, ready, dies = case["timeout"], case["now"], case["ready"], case["dies"]
        if obs == [9]:
            if T is not None:
                fails.append(f"SubprocessChannelIO.read(timeout={T / 1024}s) never returned")
            return fails
        kind, t5 = obs
        t = t5 / 5.0
        closed0 = dies is not None and dies <= now
        if T is not None and not closed0:
            if t > now + T + 1e-6:
                fails.append(f"read(timeout={T / 1024:.4f}s) ended {(t - now) / 1024:.4f}s after the call")
            if kind == 1 and t < now + T - 1e-6:
                fails.append(f"TimeoutError {(t - now) / 1024:.4f}s after the call, before the timeout {T / 1024:.4f}s")
            if kind == 1 and ready is not None and ready < now + T and (dies is None or dies > ready):
                fails.append(f"TimeoutError although data became readable {(ready - now) / 1024:.4f}s after the call (timeout {T / 1024:.4f}s)")
        if T is None and kind == 1:
            fails.append("TimeoutError without a timeout")
        if kind == 0 and ready is not None and not closed0 and abs(t - max(now, ready)) > 1e-6:
            fails.append(f"data readable at {ready / 1024:.4f}s, read returned at {t / 1024:.4f}s")
        return fails

    def nontrivial(self, case, obs):
        return case["timeout"] is not None or case["ready"] is not None

    def klass(self, case, obs):
        return str(obs[0])

    def gen(self, tier, rng):
        ts = [None, 0, 1, 100, 307, 308, 512, 1024, 1536, 3000, 10240]
        for T in ts:
            for ready in [None, 0, 1, 306, 307, 308, 500, 1024, 2999, 3000, 3001, 20000]:
                for dies in [None, 0, 200, 1000, 5000]:
                    if T is None and ready is None and dies is None:
                        continue
                    yield {"timeout": T, "now": 0, "ready": ready, "dies": dies}
        for _ in range(1500 if tier == "quick" else 15000):
            T = rng.choice([None, rng.randint(0, 5000), rng.randint(0, 400)])
            ready = rng.choice([None, rng.randint(0, 6000), rng.randint(0, 400)])
            dies = rng.choice([None, None, rng.randint(0, 6000)])
            now = rng.choice([0, 0, rng.randint(0, 100000)])
            if T is None and ready is None and dies is None:
                ready = 17
            yield {"timeout": T, "now": now, "ready": None if ready is None else now + ready, "dies": None if dies is None else now + dies}


SUITES = [TimeSuite(), FloodSuite(), LatencySuite(), SubIOSuite()]


def extra_obligations(tier):
    """the translated part of the model: regenerated from the current source and re-proved equal to what the theorems use"""
    from vlib import gen
    return gen.obligations(only=["gen_channel_constants_are_the_model"])
