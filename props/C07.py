"""C07 -- channel ownership: a borrowed or taken channel is unusable via the old handle."""
import copy as _copy

import tbot.error
import tbot.machine.channel.channel as chmod
from tbot.machine.channel.channel import Channel

from props import chan_common as cc
from vlib import coq
from vlib.framework import Suite

PROP = "C07"
TRUSTED = [
    "Coq 8.16.1 kernel; vm_compute for correspondence evaluation; no native_compute",
    "model coq/Own.v (handles x {Live,Borrowed,Taken} x copied configuration, borrow-frame stack) hand-written from channel.py:borrow/take/ChannelBorrowed/ChannelTaken; I/O abstracted to reaches-the-transport-or-raises; tie = correspondence on the real Channel objects",
    "python harness props/C07.py (scripted ChannelIO)",
]
ASSUMPTIONS = [
    "borrow contexts are left in LIFO order (they are `with` blocks)",
    "death-string ring contents are not compared (no registered string occurs in the scripted data)",
]
RULE = ("all histories up to a length bound over borrow (nested), end-of-borrow (normal or by exception), take, nine kinds of I/O / state calls and five kinds of "
        "configuration writes on every handle ever created, plus random longer histories; non-trivial = the history contains a borrow or take and afterwards "
        "touches at least two different handles; distinct by case hash")

IOK = ["read", "write", "send", "sendctl", "expect", "fileno", "closed", "close", "exit", "iter"]
# "iter" advances a read_iter() generator that was created (and advanced once) when the handle came into being: every
# advance looks at the handle's transport again, so for the ownership discipline it is a read like any other
IOK_COQ = {"iter": "KRead", "read": "KRead", "write": "KWrite", "send": "KSend", "sendctl": "KSendctl", "expect": "KExpect",
           "fileno": "KFileno", "closed": "KClosed", "close": "KClose", "exit": "KExit"}


def op_coq(o):
    k = o[0]
    if k == "borrow":
        return f"(OBorrow {coq.nat(o[1])})"
    if k == "end":
        return f"(OEnd {coq.boolean(bool(o[1]))})"
    if k == "take":
        return f"(OTake {coq.nat(o[1])})"
    if k == "io":
        return f"(OIO {coq.nat(o[1])} {IOK_COQ[o[2]]})"
    if k == "get":
        return f"(OGet {coq.nat(o[1])})"
    if k == "cfg":
        c = o[2]
        if c[0] == "prompt":
            arg = "None" if c[1] is None else f"(Some {coq.nlist(c[1])})"
            return f"(OCfg {coq.nat(o[1])} (CSetPrompt {arg}))"
        if c[0] == "add_death":
            return f"(OCfg {coq.nat(o[1])} (CAddDeath {coq.nlist(c[1])}))"
        if c[0] == "black_append":
            return f"(OCfg {coq.nat(o[1])} (CBlackAppend {c[1]}%N))"
        if c[0] == "black_set":
            return f"(OCfg {coq.nat(o[1])} (CBlackSet {coq.nlist(c[1])}))"
        if c[0] == "slow":
            d = "None" if c[1] is None else f"(Some {coq.z(c[1])})"
            return f"(OCfg {coq.nat(o[1])} (CSlow {d} {coq.nat(c[2])}))"
    raise ValueError(o)


def snapshot(h):
    pr = h.prompt
    return [[] if pr is None else [bytes(pr)],
            [bytes(t[0]) for t in h.death_strings],
            bytes(h._write_blacklist),
            [] if h.slow_send_delay is None else [cc.to_units(h.slow_send_delay)],
            h.slow_send_chunksize]


class BodyError(Exception):
    pass


def exc_code(e):
    if isinstance(e, tbot.error.ChannelBorrowedError):
        return [10]
    if isinstance(e, tbot.error.ChannelTakenError):
        return [11]
    return [98, type(e).__name__]


def well_formed(ops):
    """every handle index refers to a handle that exists at that point (borrow/take of a non-live handle creates none)"""
    nh = 1
    state = {0: "live"}
    frames = []
    for o in ops:
        k = o[0]
        if k in ("borrow", "take", "io", "cfg", "get", "borrow_fail") and o[1] >= nh:
            return False
        if k == "borrow" and state[o[1]] == "live":
            state[o[1]] = "lend"
            state[nh] = "live"
            frames.append(o[1])
            nh += 1
        elif k == "take" and state[o[1]] == "live":
            state[o[1]] = "taken"
            state[nh] = "live"
            nh += 1
        elif k == "end" and frames:
            h = frames.pop()
            if state[h] == "lend":
                state[h] = "live"
    return True


class OwnSuite(Suite):
    name = "own"
    imports = ["Own"]
    model_fn = "own_model"
    shard = 500

    def coq_input(self, case):
        return coq.lst(op_coq, case["ops"], "oop")

    def obs_term(self, case, obs):
        return coq.V(obs)

    def run(self, case):
        clock = cc.VirtualClock()
        sio = cc.ScriptIO([[0, b"aaa"] for _ in range(400)], [], clock)
        saved = chmod.time
        chmod.time = clock
        try:
            handles = [Channel(sio)]
            stack = []
            out = []
            iters = {}

            def prime(idx):
                it = handles[idx].read_iter()
                next(it)
                iters[idx] = it

            prime(0)
            for o in case["ops"]:
                k = o[0]
                if k in ("borrow", "take", "io", "cfg", "get", "borrow_fail") and o[1] >= len(handles):
                    # can only happen when an earlier borrow()/take() misbehaved: report it as an observation
                    out.append([[97], bool(sio._closed), len(handles)])
                    continue
                try:
                    if k == "borrow":
                        cm = handles[o[1]].borrow()
                        new = cm.__enter__()
                        handles.append(new)
                        stack.append(cm)
                        prime(len(handles) - 1)
                        r = [0]
                    elif k == "end":
                        if stack:
                            cm = stack.pop()
                            if o[1]:
                                # the body of the `with` block is left by an exception: 1 = an ordinary Exception,
                                # 2 = KeyboardInterrupt, 3 = SystemExit (BaseExceptions that are not Exceptions)
                                exc_t = {1: BodyError, True: BodyError, 2: KeyboardInterrupt, 3: SystemExit}[o[1]]
                                try:
                                    raise exc_t("body failed")
                                except BaseException:
                                    import sys
                                    et, ev, tb = sys.exc_info()
                                    try:
                                        swallowed = cm.__exit__(et, ev, tb)
                                    except exc_t:
                                        swallowed = False
                                    assert not swallowed
                            else:
                                cm.__exit__(None, None, None)
                        r = [0]
                    elif k == "borrow_fail":
                        # borrow() of a handle whose configuration cannot be copied (an open file attached as stream):
                        # building the borrower fails -- the lender must be left as it was
                        h = handles[o[1]]
                        import os as _os
                        f = open(_os.devnull, "w")
                        try:
                            scm = h.with_stream(f)
                            scm.__enter__()
                        except (tbot.error.ChannelBorrowedError, tbot.error.ChannelTakenError):
                            f.close()
                            raise
                        try:
                            cm = h.borrow()
                            try:
                                cm.__enter__()
                                r = [13]          # the borrow unexpectedly succeeded
                                cm.__exit__(None, None, None)
                            except (tbot.error.ChannelBorrowedError, tbot.error.ChannelTakenError):
                                raise
                            except Exception:
                                r = [12]          # TypeError from deepcopy: no borrower exists
                        finally:
                            try:
                                scm.__exit__(None, None, None)
                            except (tbot.error.ChannelBorrowedError, tbot.error.ChannelTakenError):
                                pass
                            f.close()
                    elif k == "take":
                        new = handles[o[1]].take()
                        handles.append(new)
                        prime(len(handles) - 1)
                        r = [0]
                    elif k == "io":
                        h = handles[o[1]]
                        kind = o[2]
                        r = [0]
                        if kind == "iter":
                            it = iters.get(o[1])
                            if it is None:
                                it = iters[o[1]] = h.read_iter()
                            try:
                                next(it)
                            except BaseException:
                                iters[o[1]] = None      # a generator that raised is finished
                                raise
                        elif kind == "read":
                            h.read(1)
                        elif kind == "write":
                            h.write(b"x")
                        elif kind == "send":
                            h.send("y")
                        elif kind == "sendctl":
                            h.sendcontrol("C")
                        elif kind == "expect":
                            h.expect(b"a")
                        elif kind == "fileno":
                            h.fileno()
                        elif kind == "closed":
                            r = [1, bool(h.closed)]
                        elif kind == "close":
                            h.close()
                        elif kind == "exit":
                            h.__exit__(None, None, None)
                    elif k == "cfg":
                        h = handles[o[1]]
                        c = o[2]
                        if c[0] == "prompt":
                            h.prompt = None if c[1] is None else bytes(c[1])
                        elif c[0] == "add_death":
                            h.add_death_string(bytes(c[1]))
                        elif c[0] == "black_append":
                            h._write_blacklist.append(c[1])
                        elif c[0] == "black_set":
                            h._write_blacklist = list(c[1])
                        elif c[0] == "slow":
                            h.slow_send_delay = None if c[1] is None else c[1] / cc.UNIT
                            h.slow_send_chunksize = c[2]
                        r = [0]
                    elif k == "get":
                        r = snapshot(handles[o[1]])
                    else:
                        raise ValueError(o)
                except (tbot.error.ChannelBorrowedError, tbot.error.ChannelTakenError) as e:
                    r = exc_code(e)
                out.append([r, bool(sio._closed), len(handles)])
            return out
        finally:
            chmod.time = saved

    # ------------------------------------------------------------------ generation
    def _rand_cfg(self, rng):
        x = rng.random()
        if x < 0.25:
            return ["prompt", rng.choice([None, [36, 32], [61, 62, 32]])]
        if x < 0.5:
            return ["add_death", rng.choice([[122, 113], [113, 113, 122]])]
        if x < 0.7:
            return ["black_append", rng.choice([1, 2, 3, 27])]
        if x < 0.85:
            return ["black_set", rng.choice([[], [4], [5, 6]])]
        return ["slow", rng.choice([None, 1, 4]), rng.choice([1, 32])]

    def gen(self, tier, rng):
        thorough = tier == "thorough"
        # exhaustive small histories over a reduced op alphabet
        import itertools
        base = [["borrow", 0], ["borrow", 1], ["end", 0], ["end", 2], ["take", 0], ["take", 1],
                ["io", 0, "read"], ["io", 1, "write"], ["io", 0, "closed"], ["io", 0, "close"], ["io", 1, "exit"],
                ["io", 2, "send"], ["io", 0, "iter"], ["io", 1, "iter"], ["cfg", 0, ["black_append", 7]], ["cfg", 1, ["add_death", [122, 113]]], ["get", 0], ["get", 1]]
        depth = 4 if thorough else 3
        for seq in itertools.product(range(len(base)), repeat=depth):
            ops = [base[i] for i in seq]
            if not well_formed(ops):
                continue
            yield {"ops": ops + [["get", 0]]}
        # random longer histories; handle indices are kept valid by simulating the fixed semantics loosely:
        for _ in range(20000 if thorough else 4000):
            ops = []
            nh = 1
            depth_b = 0
            live_guess = {0: "live"}
            for _ in range(rng.randint(3, 12)):
                x = rng.random()
                h = rng.randrange(nh)
                if x < 0.15:
                    ops.append(["borrow", h])
                    if live_guess.get(h) == "live":
                        live_guess[h] = "lend"
                        live_guess[nh] = "live"
                        nh += 1
                        depth_b += 1
                    else:
                        ops.pop()
                elif x < 0.27 and depth_b > 0:
                    ops.append(["end", rng.choice([0, 0, 0, 1, 2, 3])])
                    depth_b -= 1
                    # the innermost lender becomes live again (we do not track which one exactly: recompute below)
                    lenders = [k for k, v in live_guess.items() if v == "lend"]
                    if lenders:
                        live_guess[max(lenders)] = "live"
                elif x < 0.37:
                    ops.append(["take", h])
                    if live_guess.get(h) == "live":
                        live_guess[h] = "taken"
                        live_guess[nh] = "live"
                        nh += 1
                    else:
                        ops.pop()
                        ops.append(["io", h, rng.choice(IOK)])
                elif x < 0.7:
                    ops.append(["io", h, rng.choice(IOK)])
                elif x < 0.87:
                    ops.append(["cfg", h, self._rand_cfg(rng)])
                else:
                    ops.append(["get", h])
            for h in range(nh):
                ops.append(["get", h])
                ops.append(["io", h, "write"])
            if well_formed(ops):
                yield {"ops": ops}
        # attempts to borrow / take a handle that is currently lending or already taken
        for _ in range(1500 if thorough else 300):
            ops = [["borrow", 0]]
            ops.append([rng.choice(["take", "borrow"]), 0])       # on the lender, while borrowed
            ops.append(["io", 0, rng.choice(IOK)])
            ops.append(["end", rng.choice([0, 1, 2, 3])])
            ops.append(["io", 0, rng.choice(IOK)])
            ops.append(["take", 0])
            ops.append([rng.choice(["take", "borrow"]), 0])       # on the taken handle
            for h in range(3):
                ops.append(["io", h, rng.choice(IOK)])
            if well_formed(ops):
                yield {"ops": ops, "meta": {"kind": "non-live"}}

    # ------------------------------------------------------------------ oracle (from the property text)
    def oracle(self, case, obs):
        fails = []
        nh = 1
        state = {0: "live"}       # live / lend / taken
        frames = []               # lender handles of active borrows, innermost last
        closed = False
        expect_cfg = {0: [[], [], b"", [], 32]}
        for o, ob in zip(case["ops"], obs):
            r, tclosed, nhandles = ob
            k = o[0]
            if k in ("borrow", "take", "io", "cfg", "get", "borrow_fail") and o[1] >= nh:
                return fails      # malformed history (index refers to a handle that was never created)
            if k == "borrow_fail":
                want = {"live": [12], "lend": [10], "taken": [11]}[state[o[1]]]
                if r != want:
                    fails.append(f"borrow() of the {state[o[1]]} handle {o[1]} with an un-copyable stream attached gave {r!r}, expected {want!r}")
                    return fails
            elif k == "borrow":
                h = o[1]
                if state[h] == "live":
                    if r != [0]:
                        fails.append(f"borrow() of a live handle failed with {r!r}")
                        return fails
                    state[h] = "lend"
                    state[nh] = "live"
                    expect_cfg[nh] = _copy.deepcopy(expect_cfg[h])
                    frames.append(h)
                    nh += 1
                else:
                    want = [10] if state[h] == "lend" else [11]
                    if r != want:
                        fails.append(f"borrow() on a handle that is {state[h]} returned {r!r}; a state call on it must raise "
                                     f"{'ChannelBorrowedError' if want == [10] else 'ChannelTakenError'}")
                        return fails
            elif k == "end":
                if frames:
                    h = frames.pop()
                    if state[h] == "lend":
                        state[h] = "live"
            elif k == "take":
                h = o[1]
                if state[h] == "live":
                    if r != [0]:
                        fails.append(f"take() of a live handle failed with {r!r}")
                        return fails
                    state[h] = "taken"
                    state[nh] = "live"
                    expect_cfg[nh] = _copy.deepcopy(expect_cfg[h])
                    nh += 1
                else:
                    want = [10] if state[h] == "lend" else [11]
                    if r != want:
                        fails.append(f"take() on a handle that is {state[h]} returned {r!r} instead of raising")
                        return fails
            elif k == "io":
                h, kind = o[1], o[2]
                st = state[h]
                before_closed = closed
                if st == "lend":
                    if r != [10]:
                        fails.append(f"{kind} on the lending handle {h} returned {r!r} while it is borrowed (must raise ChannelBorrowedError)")
                elif st == "taken":
                    if kind == "closed":
                        if r != [1, True]:
                            fails.append(f"`closed` of the taken handle {h} is {r!r}, must be True")
                    elif kind in ("close", "exit"):
                        if r != [0]:
                            fails.append(f"{kind} on the taken handle {h} raised {r!r}")
                        if tclosed and not before_closed:
                            fails.append(f"{kind} on the taken (stale) handle {h} closed the transport")
                    elif r != [11]:
                        fails.append(f"{kind} on the taken handle {h} returned {r!r}, must raise ChannelTakenError for ever")
                else:
                    if r in ([10], [11]):
                        fails.append(f"{kind} on the live handle {h} raised {'ChannelBorrowedError' if r == [10] else 'ChannelTakenError'}")
                    if kind in ("close", "exit") and not tclosed and st == "live":
                        fails.append(f"{kind} on the live handle {h} did not close the transport")
                    if kind == "closed" and r != [1, before_closed]:
                        fails.append(f"`closed` of live handle {h} is {r!r}, transport closed={before_closed}")
                closed = tclosed
            elif k == "cfg":
                h, c = o[1], o[2]
                e = expect_cfg[h]
                if c[0] == "prompt":
                    e[0] = [] if c[1] is None else [bytes(c[1])]
                elif c[0] == "add_death":
                    e[1] = [bytes(c[1])] + e[1]
                elif c[0] == "black_append":
                    e[2] = e[2] + bytes([c[1]])
                elif c[0] == "black_set":
                    e[2] = bytes(c[1])
                elif c[0] == "slow":
                    e[3] = [] if c[1] is None else [c[1]]
                    e[4] = c[2]
            elif k == "get":
                h = o[1]
                if r != expect_cfg[h]:
                    fails.append(f"configuration of handle {h} is {r!r}; starting from a copy of its parent and applying only "
                                 f"its own writes gives {expect_cfg[h]!r} (handles must not share configuration)")
            if fails:
                return fails
        return fails

    def nontrivial(self, case, obs):
        ks = [o[0] for o in case["ops"]]
        hs = {o[1] for o in case["ops"] if o[0] in ("io", "cfg", "get")}
        return ("borrow" in ks or "take" in ks) and len(hs) >= 2

    def klass(self, case, obs):
        ks = {o[0] for o in case["ops"]}
        return "+".join(sorted(ks & {"borrow", "take", "end"})) or "plain"

    def finding_key(self, case, obs, failure):
        return None



class BorrowFailSuite(OwnSuite):
    """histories with borrows that fail while the borrower is being built (the handle's configuration holds something
    copy.deepcopy refuses: an open file attached as a stream): no borrower exists afterwards, so the lender must work as
    before -- at every nesting depth.  Outside the Coq model: judged by the reference simulation of the oracle."""
    name = "borrow_fail"
    model_fn = None

    def gen(self, tier, rng):
        fixed = [
            [["borrow_fail", 0], ["io", 0, "read"], ["io", 0, "write"], ["borrow", 0], ["io", 1, "read"], ["end", 0], ["io", 0, "read"]],
            [["borrow", 0], ["borrow_fail", 1], ["io", 1, "read"], ["io", 0, "read"], ["end", 0], ["io", 0, "send"]],
            [["borrow", 0], ["borrow", 1], ["borrow_fail", 2], ["io", 2, "closed"], ["io", 2, "read"], ["end", 0], ["io", 1, "read"], ["end", 0], ["io", 0, "read"]],
            [["borrow", 0], ["borrow_fail", 0], ["end", 0], ["io", 0, "read"]],
            [["take", 0], ["borrow_fail", 0], ["borrow_fail", 1], ["io", 1, "read"], ["take", 1], ["io", 2, "read"]],
        ]
        for ops in fixed:
            yield {"ops": ops + [["get", 0]]}
        for _ in range(1500 if tier == "thorough" else 300):
            ops = [[rng.choice(["borrow", "borrow", "take", "borrow_fail"]), 0]]
            for _ in range(rng.randint(2, 8)):
                x = rng.random()
                h = rng.randrange(4)
                if x < 0.25:
                    ops.append(["borrow_fail", h])
                elif x < 0.4:
                    ops.append(["borrow", h])
                elif x < 0.5:
                    ops.append(["end", rng.choice([0, 0, 1])])
                elif x < 0.58:
                    ops.append(["take", h])
                else:
                    ops.append(["io", h, rng.choice(IOK)])
            if well_formed(ops):
                yield {"ops": ops}

    def nontrivial(self, case, obs):
        return any(o[0] == "borrow_fail" for o in case["ops"])

    def klass(self, case, obs):
        return "fails=%d" % min(3, sum(1 for o in case["ops"] if o[0] == "borrow_fail"))


from props.take_users import TakeUsersSuite  # noqa: E402

SUITES = [OwnSuite(), BorrowFailSuite(), TakeUsersSuite()]
