"""C08 -- attached log streams get every read byte once, minus only the suppressed prompt."""
import itertools

from props import chan_common as cc

PROP = "C08"
TRUSTED = [
    "Coq 8.16.1 kernel; vm_compute for correspondence evaluation; no native_compute",
    "model coq/Channel.v (write_stream, overlap, push_stream, pop) hand-written from channel.py:_write_stream/with_stream; tie = correspondence on a scripted ChannelIO (stream contents after every operation)",
    "coq/Utf8.v model of bytes.decode('utf-8','replace'), validated against CPython",
]
ASSUMPTIONS = [
    "literal prompts are non-empty; streams are io.StringIO objects",
    "text-level equality is claimed only when piece boundaries do not split a multi-byte character",
]
RULE = ("exhaustive short streams over a prompt-derived alphabet x every composition x suppression on/off x literal prompts, "
        "attach/detach sequences across consecutive prompt-delimited reads, several simultaneously attached streams, regex prompts and nested mixed modes (known findings); "
        "non-trivial = some piece ends inside a prompt look-alike or the prompt appears mid-output; distinct by case hash")

P = b"=> "


def hold(prompt, data):
    """longest suffix of data that is a prefix of prompt"""
    for i in range(min(len(prompt), len(data)), 0, -1):
        if data[-i:] == prompt[:i]:
            return i
    return 0


class StreamSuite(cc.ChanSuite):
    name = "stream"

    def gen(self, tier, rng):
        thorough = tier == "thorough"
        alpha = sorted(set(P)) + [ord("x"), 10]
        maxn = 4 if thorough else 3
        for n in range(0, maxn + 1):
            for body in itertools.product(alpha, repeat=n):
                stream = bytes(body) + P
                for pieces in cc.all_compositions(stream):
                    for show in (False, True):
                        yield {"pieces": cc.timed(pieces), "accept": [],
                               "ops": [["push_prompt", {"lit": P.hex()}], ["push_stream", 0, show], ["rup", None, None], ["pop"],
                                       ["push_stream", 1, False], ["pop"]]}
        # a prompt that repeats its own beginning inside itself: the hold-back is the LONGEST suffix that could still
        # become the prompt
        P2 = b"a>a# "
        alpha2 = sorted(set(P2)) + [ord("x")]
        for n in range(0, 3):
            for body in itertools.product(alpha2, repeat=n):
                stream = bytes(body) + P2
                for pieces in cc.all_compositions(stream):
                    yield {"pieces": cc.timed(pieces), "accept": [],
                           "ops": [["push_prompt", {"lit": P2.hex()}], ["push_stream", 0, False], ["rup", None, None], ["pop"],
                                   ["push_stream", 1, False], ["pop"]], "meta": {"kind": "selfrep"}}
        # consecutive commands, several streams, reads that do not end at the prompt, non-ASCII
        for _ in range(8000 if thorough else 2000):
            ops = [["push_prompt", {"lit": P.hex()}]]
            stream = b""
            ncmd = rng.randint(1, 3)
            depth = 0
            for c in range(ncmd):
                out = cc.rand_bytes(rng, rng.randint(0, 10), b"=> x\n\xc3\xa9=")
                stream += out + P
                show = rng.random() < 0.3
                two = rng.random() < 0.3
                ops.append(["push_stream", 0, show])
                if two:
                    ops.append(["push_stream", 1, show])
                if rng.random() < 0.3:
                    ops.append(["read", rng.randint(1, 3), None])
                ops.append(["rup", None, None])
                if two:
                    ops.append(["pop"])
                ops.append(["pop"])
            yield {"pieces": cc.timed(cc.rand_split(rng, stream, 8)), "accept": [], "ops": ops, "meta": {"kind": "cmds"}}
        # regex prompts with suppression, and nested streams with different modes (known findings D11)
        for _ in range(600 if thorough else 150):
            out = cc.rand_bytes(rng, rng.randint(0, 8), b"ab12> x")
            tail = rng.choice([b"> ", b"1> ", b"12> "])
            stream = out + tail
            yield {"pieces": cc.timed(cc.rand_split(rng, stream, 4)), "accept": [],
                   "ops": [["push_prompt", {"re": cc.RE_POOL[0]}], ["push_stream", 0, False], ["rup", None, None], ["pop"]],
                   "meta": {"kind": "regex"}}
        for _ in range(600 if thorough else 150):
            out1 = cc.rand_bytes(rng, rng.randint(1, 4), b"=x")
            out2 = cc.rand_bytes(rng, rng.randint(1, 6), b"=> x")
            stream = out1 + out2 + P
            yield {"pieces": cc.timed([out1] + cc.rand_split(rng, out2 + P, 4)), "accept": [],
                   "ops": [["push_prompt", {"lit": P.hex()}], ["push_stream", 0, False], ["read", len(out1), None],
                           ["push_stream", 1, True], ["read", 1, None], ["pop"], ["rup", None, None], ["pop"]],
                   "meta": {"kind": "nested-mixed"}}
        yield from self.gen_nested_clean(tier, rng)
        # a death string fires while a stream is attached: the piece that completes it has been consumed, so it is forwarded
        for _ in range(1500 if thorough else 300):
            out1 = cc.rand_bytes(rng, rng.randint(0, 6), b"=> x\n")
            out2 = cc.rand_bytes(rng, rng.randint(0, 6), b"=> x\n")
            stream = out1 + b"PANIC" + out2 + P
            show = rng.random() < 0.5
            ops = [["push_prompt", {"lit": P.hex()}], ["push_stream", 0, show], ["push_death", {"lit": b"PANIC".hex()}, 1],
                   [rng.choice(["rup", "rup", "rut"]), None, None][:2] + [None], ["pop"], ["pop"]]
            if ops[3][0] == "rut":
                ops[3] = ["rut", 64]
            yield {"pieces": cc.timed(cc.rand_split(rng, stream, 5)), "accept": [], "ops": ops, "meta": {"kind": "death"}}

    def gen_nested_clean(self, tier, rng):
        """nested attachments with different modes where nothing is held back at the moment the mode changes"""
        for _ in range(1500 if tier == "thorough" else 300):
            out1 = cc.rand_bytes(rng, rng.randint(0, 3), b"x\n") + b"x"      # ends with a non-prompt byte: nothing held
            out2 = cc.rand_bytes(rng, rng.randint(1, 4), b"=> x") + b"x"
            out3 = cc.rand_bytes(rng, rng.randint(0, 5), b"=> x")
            outer_show = rng.random() < 0.5
            inner_show = not outer_show if rng.random() < 0.8 else outer_show
            ops = [["push_prompt", {"lit": P.hex()}], ["push_stream", 0, outer_show]]
            pieces = []
            if rng.random() < 0.6:
                ops.append(["read", len(out1), None])
                pieces.append(out1)
            ops += [["push_stream", 1, inner_show], ["read", len(out2), None], ["pop"], ["rup", None, None], ["pop"]]
            pieces += [out2] + cc.rand_split(rng, out3 + P, 4)
            if rng.random() < 0.3:
                ops.insert(1, ["push_stream", 2, True])      # a third stream attached before the prompt is set: prompt None mode
                ops.append(["pop"])
            yield {"pieces": cc.timed(pieces), "accept": [], "ops": ops, "meta": {"kind": "nested-clean"}}

    def oracle(self, case, obs):
        """Independent reference written from the property text: every attached stream receives the same
        text; mode = show_prompt of the innermost attachment; in suppress mode with a literal prompt exactly
        the longest suffix of the data that is a prefix of the prompt is held back; detaching in suppress mode
        drops what is held back.  Regex prompts: only the end-of-read clause is judged."""
        fails = []
        kind = case.get("meta", {}).get("kind")
        prompt = None
        frames = []
        attached = []                 # sids, in attach order
        fwd = {0: "", 1: "", 2: ""}   # reference: text each stream should have received in total
        got = {0: "", 1: "", 2: ""}
        held = b""
        mode_show = True
        data_since = {}
        self._d11b = False
        ascii_only = all(c < 128 for _, h in case["pieces"] for c in bytes.fromhex(h))
        for idx, (o, ob) in enumerate(zip(case["ops"], obs[0])):
            r, now, deltas, iolog = ob
            k = o[0]
            for sid in range(3):
                got[sid] += deltas[sid]
                if sid not in attached and deltas[sid] != "" and not (k == "pop"):
                    fails.append(f"stream {sid} received {deltas[sid]!r} while detached")
            if k == "push_prompt":
                frames.append(("prompt", prompt))
                prompt = o[1]
            elif k == "push_stream":
                frames.append(("stream", o[1], mode_show))
                attached.append(o[1])
                data_since[o[1]] = b""
                mode_show = o[2]
            elif k == "pop":
                f = frames.pop()
                if f[0] == "prompt":
                    prompt = f[1]
                else:
                    sid = f[1]
                    if not mode_show and prompt is not None:
                        if "re" in prompt:
                            import re as _re
                            pat = _re.compile(cc.re_py(prompt["re"]))
                            d = data_since[sid]
                            i0 = next((i for i in range(len(d) + 1) if pat.fullmatch(d, i)), None)
                            if i0 is not None and got[sid][-len(d):] != d[:i0].decode("utf-8", "replace") and \
                                    not got[sid].endswith(d[:i0].decode("utf-8", "replace")):
                                want_txt = d[:i0].decode("utf-8", "replace")
                                # the recorded finding LOSES the tail of the output (what the stream holds is a proper
                                # prefix of it); anything else -- e.g. bytes of the prompt forwarded -- is something new
                                if ascii_only and not want_txt.startswith(got[sid]):
                                    fails.append(f"regex prompt (not a lost tail): after a read that ended at the prompt the stream holds "
                                                 f"{got[sid]!r}; the output is {want_txt!r}")
                                else:
                                    fails.append(f"regex prompt: after a read that ended at the prompt the stream holds "
                                                 f"{got[sid]!r}, expected it to end with the output {d[:i0]!r}")
                        held = b""
                    attached.remove(sid)
                    mode_show = f[2]
            if k in ("read", "read_iter", "readline", "expect", "rup", "rut"):
                for chunk in obs[3][idx]:
                    for sid in attached:
                        data_since[sid] += chunk
                    if not attached:
                        continue
                    if mode_show or prompt is None:
                        if held:
                            self._d11b = True     # show-mode write while bytes are held back (finding D11b)
                        frag = chunk
                    elif "lit" in prompt or "str" in prompt:
                        pb = cc.sstr_bytes(prompt)
                        held += chunk
                        h = hold(pb, held)
                        frag, held = held[:len(held) - h], held[len(held) - h:]
                    else:
                        frag = None               # regex prompt: hold-back not judged per chunk
                    if frag is not None:
                        for sid in attached:
                            fwd[sid] += frag.decode("utf-8", "replace")
            # compare
            if prompt is not None and "re" in prompt and not mode_show:
                continue
            for sid in attached:
                if ascii_only and got[sid] != fwd[sid]:
                    fails.append(f"stream {sid} holds {got[sid]!r}; by the property it should hold {fwd[sid]!r} "
                                 f"(data read since attaching {data_since[sid]!r}, mode {'show' if mode_show else 'suppress'})")
            if len({got[s][len(got[s]) - 0:] for s in attached}) > 1:
                pass
            ds = {deltas[sid] for sid in attached}
            if len(ds) > 1 and k != "push_stream":
                fails.append(f"simultaneously attached streams received different text: {sorted(ds)!r}")
        if not attached and obs[1][1] != b"":
            fails.append(f"held-back bytes {obs[1][1]!r} survive detaching (would leak into a later attachment)")
        return fails

    def nontrivial(self, case, obs):
        ps = [bytes.fromhex(h) for _, h in case["pieces"]]
        return any(hold(P, p) not in (0, len(P)) or (P in p and not p.endswith(P)) for p in ps[:-1] + ps[-1:]) or len(ps) > 2

    def klass(self, case, obs):
        return case.get("meta", {}).get("kind", "exhaustive")

    def finding_key(self, case, obs, failure):
        # known findings are identified by the history that fails (see known_findings.json / DESIGN.md D11):
        kind = case.get("meta", {}).get("kind")
        if kind == "regex" and "not a lost tail" in failure:
            return None
        if kind == "regex" and ("regex prompt:" in failure or "survive detaching" in failure):
            # with_stream(show_prompt=False) + REGEX prompt: the last maxwidth bytes are held back and dropped at detach
            return "C08:regex-prompt-holdback-dropped-at-detach"
        if kind == "nested-mixed" and getattr(self, "_d11b", False):
            # with_stream(show_prompt=True) nested inside with_stream(show_prompt=False) WHILE bytes are held back
            return "C08:nested-with_stream-mixed-modes-reorder"
        return None


# ------------------------------------------------------------------ the consumers: command log events of the shells
from props import C19 as _C19          # noqa: E402
from props import shell_common as _sc  # noqa: E402
import tbot.log as _tlog               # noqa: E402


class CmdLogSuite(_C19.ExecSuite):
    """UBootShell.exec attaches the command's log event as a stream (prompt suppressed; the crc32 work-around overrides
    the prompt): every command's event holds exactly that command's output -- nothing of the prompt, nothing left over
    from the command before.  Oracle only (the simulated U-Boot console of the C19 check)."""
    name = "cmdlog"
    model_fn = None

    def run(self, case):
        snaps = []
        orig = _tlog.EventIO.close

        def close(ev):
            try:
                snaps.append([list(ev.ty), ev.getvalue()])
            except ValueError:
                pass
            return orig(ev)
        _tlog.EventIO.close = close
        try:
            obs = _C19.run_calls(case)
        finally:
            _tlog.EventIO.close = orig
        return obs + [[t for ty, t in snaps if ty[:1] == ["cmd"]]]

    def obs_term(self, case, obs):
        raise NotImplementedError

    def oracle(self, case, obs):
        if super().oracle(case, obs[:4]):
            return []          # the calls themselves went wrong: the C19 check reports that
        results, written, unread, siminfo, logs = obs
        want = []
        for call, res, info in zip(case["calls"], results, siminfo):
            for line_hex, out_hex, _, _ in info:
                if bytes.fromhex(line_hex) != b"echo $?":
                    want.append(_sc.py_text(bytes.fromhex(out_hex)).replace("\r", ""))
        got = [t.replace("\r", "") for t in logs]
        if len(got) != len(want):
            return [f"{len(got)} command events for {len(want)} commands"]
        for n, (g, w) in enumerate(zip(got, want)):
            if not w.isascii():
                continue       # a piece boundary may split a multi-byte character (outside the property)
            if g != w:
                return [f"the log event of command {n} holds {g!r}; the command printed {w!r} (prompt text or left-overs of another command in the stream)"]
        return []

    def nontrivial(self, case, obs):
        return len(case["calls"]) >= 2

    def gen(self, tier, rng):
        import itertools as _it
        for case in _it.islice(super().gen(tier, rng), 1500 if tier == "thorough" else 300):
            # control characters are outside the quantifier of the exec check; crc32 commands first and in the middle
            if all(ord(c) >= 32 and ord(c) != 127 for call in case["calls"] for a in (call[1] if call[0] != "env" else [call[1], call[2] or ""]) for c in a):
                yield case


SUITES = [StreamSuite(), CmdLogSuite()]
