"""C08 -- attached log streams get every read byte once, minus only the suppressed prompt."""
import itertools

from props import chan_common as cc

PROP = "C08"
TRUSTED = [
    "Coq 8.16.1 kernel; vm_compute for correspondence evaluation; no native_compute",
    "model coq/Channel.v (write_stream, overlap, push_stream, pop) hand-written from channel.py:_write_stream/with_stream; tie = correspondence on a scripted ChannelIO (stream contents after every operation)",
    "coq/Utf8.v model of bytes.decode('utf-8','replace'), validated against CPython",
]
ASSUMPTIONS = [
    "literal prompts are non-empty; streams are io.StringIO objects",
    "text-level equality is claimed only when piece boundaries do not split a multi-byte character",
]
RULE = ("exhaustive short streams over a prompt-derived alphabet x every composition x suppression on/off x literal prompts, "
        "attach/detach sequences across consecutive prompt-delimited reads, several simultaneously attached streams, regex prompts and nested mixed modes (known findings); "
        "non-trivial = some piece ends inside a prompt look-alike or the prompt appears mid-output; distinct by case hash")

P = b"=> "


def hold(prompt, data):
    """longest suffix of data that is a prefix of prompt"""
    for i in range(min(len(prompt), len(data)), 0, -1):
        if data[-i:] == prompt[:i]:
            return i
    return 0


class StreamSuite(cc.ChanSuite):
    name = "stream"

    def gen(self, tier, rng):
        thorough = tier == "thorough"
        alpha = sorted(set(P)) + [ord("x"), 10]
        maxn = 4 if thorough else 3
        for n in range(0, maxn + 1):
            for body in itertools.product(alpha, repeat=n):
                stream = bytes(body) + P
                for pieces in cc.all_compositions(stream):
                    for show in (False, True):
                        yield {"pieces": cc.timed(pieces), "accept": [],
                               "ops": [["push_prompt", {"lit": P.hex()}], ["push_stream", 0, show], ["rup", None, None], ["pop"],
                                       ["push_stream", 1, False], ["pop"]]}
        # consecutive commands, several streams, reads that do not end at the prompt, non-ASCII
        for _ in range(8000 if thorough else 2000):
            ops = [["push_prompt", {"lit": P.hex()}]]
            stream = b""
            ncmd = rng.randint(1, 3)
            depth = 0
            for c in range(ncmd):
                out = cc.rand_bytes(rng, rng.randint(0, 10), b"=> x\n\xc3\xa9=")
                stream += out + P
                show = rng.random() < 0.3
                two = rng.random() < 0.3
                ops.append(["push_stream", 0, show])
                if two:
                    ops.append(["push_stream", 1, show])
                if rng.random() < 0.3:
                    ops.append(["read", rng.randint(1, 3), None])
                ops.append(["rup", None, None])
                if two:
                    ops.append(["pop"])
                ops.append(["pop"])
            yield {"pieces": cc.timed(cc.rand_split(rng, stream, 8)), "accept": [], "ops": ops, "meta": {"kind": "cmds"}}
        # regex prompts with suppression, and nested streams with different modes (known findings D11)
        for _ in range(600 if thorough else 150):
            out = cc.rand_bytes(rng, rng.randint(0, 8), b"ab12> x")
            tail = rng.choice([b"> ", b"1> ", b"12> "])
            stream = out + tail
            yield {"pieces": cc.timed(cc.rand_split(rng, stream, 4)), "accept": [],
                   "ops": [["push_prompt", {"re": cc.RE_POOL[0]}], ["push_stream", 0, False], ["rup", None, None], ["pop"]],
                   "meta": {"kind": "regex"}}
        for _ in range(600 if thorough else 150):
            out1 = cc.rand_bytes(rng, rng.randint(1, 4), b"=x")
            out2 = cc.rand_bytes(rng, rng.randint(1, 6), b"=> x")
            stream = out1 + out2 + P
            yield {"pieces": cc.timed([out1] + cc.rand_split(rng, out2 + P, 4)), "accept": [],
                   "ops": [["push_prompt", {"lit": P.hex()}], ["push_stream", 0, False], ["read", len(out1), None],
                           ["push_stream", 1, True], ["read", 1, None], ["pop"], ["rup", None, None], ["pop"]],
                   "meta": {"kind": "nested-mixed"}}

    def oracle(self, case, obs):
        fails = []
        kind = case.get("meta", {}).get("kind")
        prompt = None
        frames = []           # stack of ("prompt",) / ("stream", sid, show)
        attached = {}         # sid -> dict(data=bytes read since attach, fwd=text forwarded, chunks=[...])
        for idx, (o, ob) in enumerate(zip(case["ops"], obs[0])):
            r, now, deltas, iolog = ob
            k = o[0]
            chunks = obs[3][idx]
            if k == "push_prompt":
                frames.append(("prompt", prompt))
                prompt = o[1]
            elif k == "push_stream":
                frames.append(("stream", o[1], o[2]))
                attached[o[1]] = {"data": b"", "fwd": "", "chunks": [], "show": o[2]}
            elif k == "pop":
                f = frames.pop()
                if f[0] == "prompt":
                    prompt = f[1]
                else:
                    st = attached.pop(f[1])
                    # when the read ended at the prompt, the stream holds exactly the output without the prompt
                    if not st["show"] and prompt is not None and "lit" in prompt:
                        pb = bytes.fromhex(prompt["lit"])
                        if st["data"].endswith(pb) and all(c < 128 for c in st["data"]):
                            want = st["data"][:-len(pb)].decode()
                            if st["fwd"] != want:
                                fails.append(f"after a read that ended at the prompt the stream holds {st['fwd']!r}, expected {want!r}")
                    if not st["show"] and prompt is not None and "re" in prompt and kind == "regex":
                        import re as _re
                        pat = _re.compile(cc.re_py(prompt["re"]))
                        i = next((i for i in range(len(st["data"]) + 1) if pat.fullmatch(st["data"], i)), None)
                        if i is not None and st["fwd"] != st["data"][:i].decode("utf-8", "replace"):
                            fails.append(f"regex prompt: after a read that ended at the prompt the stream holds {st['fwd']!r}, "
                                         f"expected {st['data'][:i]!r}")
            # nothing is forwarded to a detached stream
            for sid in range(3):
                if sid not in attached and deltas[sid] != "":
                    fails.append(f"stream {sid} received {deltas[sid]!r} while detached")
            if not attached:
                continue
            # all simultaneously attached streams receive the same text
            ds = {deltas[sid] for sid in attached}
            if len(ds) > 1:
                fails.append(f"simultaneously attached streams received different text: {sorted(ds)!r}")
            for sid, st in attached.items():
                st["data"] += b"".join(chunks)
                st["chunks"] += chunks
                st["fwd"] += deltas[sid]
                shows = {s["show"] for s in attached.values()}
                mixed = len(shows) > 1
                cur_show = [f for f in frames if f[0] == "stream"][-1][2]
                if cur_show or prompt is None:
                    if not mixed:
                        want = "".join(c.decode("utf-8", "replace") for c in st["chunks"])
                        if st["fwd"] != want:
                            fails.append(f"suppression off: stream holds {st['fwd']!r}, data read since attaching {want!r}")
                elif "lit" in prompt and all(c < 128 for c in st["data"]) and not mixed:
                    pb = bytes.fromhex(prompt["lit"])
                    h = hold(pb, st["data"])
                    want = st["data"][:len(st["data"]) - h].decode()
                    if st["fwd"] != want:
                        fails.append(f"suppression on: forwarded {st['fwd']!r}; data {st['data']!r} minus the longest "
                                     f"suffix that could still become the prompt is {want!r}")
                if mixed and all(c < 128 for c in st["data"]):
                    # forwarded must at least be a prefix of the data read since attaching
                    if not st["data"].decode().startswith(st["fwd"]):
                        fails.append(f"forwarded {st['fwd']!r} is not a prefix of the data read since attaching {st['data']!r} (reordered)")
        if not [f for f in frames if f[0] == "stream"] and obs[1][1] != b"":
            fails.append(f"held-back bytes {obs[1][1]!r} survive detaching (would leak into a later attachment)")
        return fails

    def nontrivial(self, case, obs):
        ps = [bytes.fromhex(h) for _, h in case["pieces"]]
        return any(hold(P, p) not in (0, len(P)) or (P in p and not p.endswith(P)) for p in ps[:-1] + ps[-1:]) or len(ps) > 2

    def klass(self, case, obs):
        return case.get("meta", {}).get("kind", "exhaustive")

    def finding_key(self, case, obs, failure):
        # known findings are identified by the history that fails (see known_findings.json / DESIGN.md D11):
        kind = case.get("meta", {}).get("kind")
        if kind == "regex" and ("regex prompt:" in failure or "survive detaching" in failure):
            # with_stream(show_prompt=False) + REGEX prompt: the last maxwidth bytes are held back and dropped at detach
            return "C08:regex-prompt-holdback-dropped-at-detach"
        if kind == "nested-mixed":
            # with_stream(show_prompt=True) nested inside with_stream(show_prompt=False) while bytes are held back
            return "C08:nested-with_stream-mixed-modes-reorder"
        return None


SUITES = [StreamSuite()]
