"""C09 -- environment variables round-trip exactly and subshells isolate their changes."""
import contextlib
import os
import random
import re
import subprocess

import tbot
import tbot.error
from tbot.machine import linux

from vlib import coq
from vlib.framework import Suite
from . import shell_common as sc
from . import C01
from . import chan_common as cc

PROP = "C09"
TRUSTED = [
    "Coq 8.16.1 kernel; vm_compute for correspondence evaluation; no native_compute",
    "model coq/Sh.v (posix_environment: the export line, the read-back line and its slice, as sessions over coq/Session.v) hand-written; tie = correspondence with the real linux.Bash / linux.Ash env() over a simulated console and end-to-end runs on the real bash and dash",
    "environment models: the shell's word splitting (C01) and the echo / printf builtins of bash and dash (validated against the real shells on every run)",
    "subshell isolation is decided end-to-end on the real shells against a reference interpreter of the nesting (stack of environments); the Coq side proves the line-level facts only",
]
ASSUMPTIONS = [
    "values contain no NUL and no CR; variable names are shell identifiers",
    "a body raises only between complete commands (an exception in the middle of a read leaves the channel out of sync by definition)",
    "dash stands in for ash (busybox is not installed)",
]
RULE = ("values over an alphabet of backslash escapes (\\\\n \\\\t \\\\c \\\\0NNN \\\\\\\\), leading dashes (-n -e -E), quotes, $-expressions, globs, newlines, leading / trailing blanks, non-ASCII and the empty string: all strings up to length 3 over the escape alphabet plus random longer ones; "
        "set / get / printenv sequences against a simulated console (bash and dash echo semantics) with fragmented reactions; "
        "end-to-end on the real bash and dash: random nestings (depth <= 3) of subshell contexts with variable sets, cd and shell options at every level, an exception raised at a random point of a body, "
        "state compared with a reference interpreter through env(), a helper process printing os.environ, pwd and $-; non-trivial = value contains a backslash, a leading dash, a newline or trailing blank, or the program nests; distinct by case hash")

ESC_ALPHA = "\\ntc0-eE1 a'\"$"


# ------------------------------------------------------------------ builtins of the simulated shells
def echo_ref(dash: bool, arg: bytes) -> bytes:
    if not dash:
        return arg + b"\n"
    out, i, n = bytearray(), 0, len(arg)
    simple = {97: 7, 98: 8, 101: 27, 102: 12, 110: 10, 114: 13, 116: 9, 118: 11, 92: 92}
    while i < n:
        c = arg[i]
        if c == 92 and i + 1 < n:
            d = arg[i + 1]
            if d == 99:
                return bytes(out)
            if d in simple:
                out.append(simple[d])
                i += 2
                continue
            if 48 <= d <= 55:
                j, v, k = (i + 2, 0, 0) if d == 48 else (i + 1, 0, 0)
                while j < n and k < 3 and 48 <= arg[j] <= 55:
                    v = v * 8 + arg[j] - 48
                    j += 1
                    k += 1
                out.append(v % 256)
                i = j
                continue
            out.append(92)
            i += 1
            continue
        out.append(c)
        i += 1
    return bytes(out) + b"\n"


class EnvSim(C01.LinuxSim):
    def __init__(self, dash):
        super().__init__()
        self.dash = dash
        self.env = {}

    def execute(self, line: bytes) -> bytes:
        m = re.fullmatch(rb'echo " \$\{(.*)\}"', line, re.S)
        m2 = re.fullmatch(rb"printf '%s\\n' \"\$\{(.*)\}\"", line, re.S)
        if m or m2:
            inner = (m or m2).group(1)
            try:
                name = C01.sh_ref(inner)[0] if inner not in (b"!", b"$") else inner
            except (C01.Stuck, IndexError):
                self.status = 2
                return b"sh: bad substitution\n"
            val = self.env.get(name, b"")
            self.status = 0
            self.argvs.append([b"<get>", name])
            return echo_ref(self.dash, b" " + val) if m else val + b"\n"
        if line.startswith(b"export "):
            try:
                words = C01.sh_ref(line)
            except C01.Stuck:
                self.argvs.append(None)
                self.status = 2
                return b"sh: syntax error\n"
            self.argvs.append(words)
            for w in words[1:]:
                name, _, val = w.partition(b"=")
                if not re.fullmatch(rb"[A-Za-z_][A-Za-z0-9_]*", name):
                    self.status = 1
                    return b"export: bad variable name\n"
                self.env[name] = val
            self.status = 0
            return b""
        return super().execute(line)


def run_env_calls(case):
    ash = case["ash"]
    rng = random.Random(case["seed"])
    clock = sc.VirtualClock()
    sim = EnvSim(ash)
    io = sc.StageIO([], case["accept"], clock, initial=[[0, b"$ "]])
    io.reactor = lambda line: b"".join(sim.react(line))
    results, all_stages, siminfo = [], [], []
    with sc.patched_clock(clock), sc.quiet_log():
        with C01.mk_machine(io, ash)() as m:
            io.reactor = None
            io.accept = list(case["accept"])
            base_written = len(io.written)
            io.pend = []
            for call in case["calls"]:
                kind = call[0]
                # the lines the call is expected to send: observed from the machine itself on a scratch copy
                lines = expected_lines(m, call)
                stages, info = [], []
                for line in lines:
                    nargv = len(sim.argvs)
                    echo, out, pr = sim.react(line)
                    data = echo + out + pr
                    pieces = sc.fragment(rng, data, len(echo), pr, one_byte=(case["frag"] == "bytes"),
                                         maxpieces=(1 if case["frag"] == "whole" else 8))
                    stages.append(sc.timed_stage(rng, pieces))
                    info.append([line.hex(), out.hex(), sim.status])
                io.stages = [[[t, bytes(d)] for t, d in st] for st in stages]
                io.armed = True
                try:
                    if kind == "set":
                        results.append([0, m.env(call[1], call[2])])
                    else:
                        results.append([0, m.env(call[1])])
                except tbot.error.CommandFailure:
                    results.append([1])
                except tbot.error.InvalidRetcodeError as e:
                    results.append([2, [1, e.retcode_str]])
                except Exception as e:  # noqa
                    results.append([2, [2, sc.exc_kind(e)]])
                all_stages.append([[[t, d.hex()] for t, d in st] for st in stages])
                siminfo.append([info, {k.decode("latin1"): v.hex() for k, v in sim.env.items()}])
            written = bytes(io.written[base_written:])
            unread = io.unread()
            io.pend = []
    case["_stages"] = all_stages
    return [results, written, unread, siminfo]


class _Recorder:
    """stands in for the machine while posix_environment composes its command line"""

    def __init__(self, m):
        self.m = m
        self.lines = []

    def escape(self, *a):
        return self.m.escape(*a)

    def exec0(self, *a):
        self.lines.append(self.m.escape(*a).encode("utf-8"))
        return "  "


def expected_lines(m, call):
    import tbot.machine.linux.util as lutil
    rec = _Recorder(m)
    if call[0] == "set":
        lutil.posix_environment(rec, call[1], call[2])
    else:
        lutil.posix_environment(rec, call[1])
    out = []
    for ln in rec.lines:
        out += [ln, b"echo $?"]
    return out


def env_call_coq(call, stages):
    sts = [[[t, bytes.fromhex(d)] for t, d in st] for st in stages]
    if call[0] == "set":
        k = f"LEnvSet {sc.codepoints(call[1])} {sc.codepoints(call[2])}"
    else:
        k = f"LEnvGet {sc.codepoints(call[1])}"
    return f"({k}, {sc.stages_coq(sts)})"


class EnvSuite(Suite):
    name = "env"
    imports = ["Channel", "Hush", "Session", "Sh"]
    model_fn = "lx_model"
    shard = 150

    def run(self, case):
        return run_env_calls(case)

    def coq_input(self, case):
        calls = coq.lst(lambda cs: env_call_coq(*cs), list(zip(case["calls"], case["_stages"])), "(lx_call * list stage)")
        return f"({coq.boolean(case['ash'])}, {coq.natlist(case['accept'])}, {calls})"

    def obs_term(self, case, obs):
        return coq.V(obs[:3])

    def oracle(self, case, obs):
        fails = []
        results, written, unread, siminfo = obs
        cur = {}
        sh = "dash" if case["ash"] else "bash"
        for call, res, (info, envhex) in zip(case["calls"], results, siminfo):
            if call[0] == "set":
                cur[call[1]] = call[2]
                if res != [0, call[2]]:
                    fails.append(f"[{sh}] env({call[1]!r}, {call[2]!r}) returned {res!r}")
                seen = bytes.fromhex(envhex.get(call[1], "")).decode("utf-8", "replace")
                if seen != call[2]:
                    fails.append(f"[{sh}] after env({call[1]!r}, {call[2]!r}) the remote variable holds {seen!r}")
            else:
                want = cur.get(call[1], "")
                if res != [0, want]:
                    fails.append(f"[{sh}] {call[1]} was set to {want!r} but env({call[1]!r}) returns {res!r}")
        if not fails and unread:
            fails.append(f"console output left unread: {unread!r}")
        return fails

    def nontrivial(self, case, obs):
        return any(c[0] == "set" and (("\\" in c[2]) or c[2].startswith("-") or "\n" in c[2] or c[2] != c[2].strip()) for c in case["calls"]) or case["frag"] != "whole"

    def klass(self, case, obs):
        return ("dash:" if case["ash"] else "bash:") + case["frag"]

    def finding_key(self, case, obs, failure):
        return None

    def gen(self, tier, rng):
        import itertools
        vals = []
        for n in range(0, 3 if tier == "quick" else 4):
            for t in itertools.product("\\nt0-e a", repeat=n):
                vals.append("".join(t))
        vals += ["-n", "-e", "-E", "-n x", "a\\tb", "a\\\\b", "x\\c", "\\0101", "\\101", "tail ", " lead", "  ", "a\nb", "a\n", "\n", "ä€", "$HOME", "`id`", "*", "'", "\"", "a'b\"c", "\\", "!", "~"]
        for _ in range(150 if tier == "quick" else 1500):
            vals.append("".join(rng.choice(ESC_ALPHA + "äb\n") for _ in range(rng.randint(1, 10))))
        for ash in (False, True):
            yield {"ash": ash, "accept": [], "calls": [["set", "FOO", "previous value"], ["set", "FOO", ""], ["get", "FOO"]], "seed": 1, "frag": "random"}
            yield {"ash": ash, "accept": [], "calls": [["set", "A", "x"], ["get", "A"], ["set", "A", ""], ["get", "A"], ["set", "A", "y"], ["get", "A"]], "seed": 2, "frag": "bytes"}
        for i, v in enumerate(vals):
            name = rng.choice(["FOO", "A", "tbot_var1", "_x"])
            calls = [["set", name, v], ["get", name]]
            if rng.random() < 0.3:
                calls += [["get", "UNSET_VAR"], ["set", name, rng.choice(vals)], ["get", name]]
            yield {"ash": i % 2 == 0, "accept": [], "calls": calls, "seed": rng.randrange(1 << 30), "frag": rng.choice(["whole", "random", "bytes"])}
            yield {"ash": i % 2 == 1, "accept": [], "calls": calls[:2], "seed": rng.randrange(1 << 30), "frag": "random"}


# ------------------------------------------------------------------ the echo builtin model against the real shells
def real_echo(shell, arg: bytes):
    try:
        p = subprocess.run([shell, "-c", 'echo "$1"', "sh", arg], stdout=subprocess.PIPE, stderr=subprocess.DEVNULL,
                           env={"LC_ALL": "C", "PATH": "/usr/bin:/bin"}, timeout=10)
        return p.stdout
    except Exception:  # noqa
        return None


class EchoSuite(Suite):
    """echo_out (Sh.v) and echo_ref (the simulator's) against the echo builtins of the real bash and dash"""
    name = "echo"
    imports = ["Hush", "Session", "Sh"]
    model_fn = "echo_model"
    shard = 500

    def run(self, case):
        return real_echo("/bin/dash" if case["dash"] else "/bin/bash", bytes.fromhex(case["arg"]))

    def coq_input(self, case):
        return f"({coq.boolean(case['dash'])}, {coq.nlist(bytes.fromhex(case['arg']))})"

    def oracle(self, case, obs):
        ref = echo_ref(case["dash"], bytes.fromhex(case["arg"]))
        if obs != ref:
            return [f"MODEL-VALIDATION: echo builtin of {'dash' if case['dash'] else 'bash'} on {bytes.fromhex(case['arg'])!r}: real {obs!r}, simulator {ref!r}"]
        return []

    def klass(self, case, obs):
        return "dash" if case["dash"] else "bash"

    def gen(self, tier, rng):
        import itertools
        for n in range(1, 4 if tier == "quick" else 5):
            for t in itertools.product(b"\\ntc01 a", repeat=n):
                # the argument always starts with a blank, like posix_environment's
                for dash in (False, True):
                    yield {"dash": dash, "arg": (b" " + bytes(t)).hex()}
        for _ in range(200 if tier == "quick" else 2000):
            arg = b" " + bytes(rng.choice(b"\\\\\\nabtcefrv0123789 x-") for _ in range(rng.randint(1, 12)))
            yield {"dash": rng.random() < 0.7, "arg": arg.hex()}


# ------------------------------------------------------------------ end to end: env and nested subshells on the real shells
ENVDUMP = os.path.join(os.path.dirname(os.path.abspath(__file__)), "envdump.py")


class Boom(Exception):
    pass


class BoomBase(BaseException):
    """a body left by something that is not an Exception (KeyboardInterrupt, a pytest outcome ...)"""


_BOOM = Boom


def run_prog(m, ash, prog, stack, trace, depth=0):
    """interpret a program on the real machine; stack = reference interpreter state [(env, cwd, opts)]"""
    for op in prog:
        k = op[0]
        env, cwd, opts = stack[-1]
        if k == "set":
            r = m.env(op[1], op[2])
            env[op[1]] = op[2]
            trace.append(["set", op[1], op[2], r])
        elif k == "get":
            trace.append(["get", op[1], env.get(op[1], ""), m.env(op[1])])
        elif k == "seen":
            out = m.exec0("/venv/bin/python", ENVDUMP, op[1])
            trace.append(["seen", op[1], env.get(op[1], "").encode("utf-8").hex() + "\n", out])
        elif k == "cd":
            m.exec0("cd", op[1])
            stack[-1] = (env, op[1], opts)
            trace.append(["cd", op[1]])
        elif k == "pwd":
            trace.append(["pwd", stack[-1][1] + "\n", m.exec0("pwd")])
        elif k == "opt":
            m.exec0("set", "-f")
            stack[-1] = (env, stack[-1][1], True)
        elif k == "chkopt":
            trace.append(["opt", stack[-1][2], "f" in m.exec0("echo", linux.Raw("$-"))])
        elif k == "echo":
            trace.append(["echo", op[1] + "\n", m.exec0("printf", "%s\\n", op[1])])
        elif k == "boom":
            raise _BOOM()
        elif k == "sub":
            e2, c2, o2 = stack[-1]
            stack.append((dict(e2), c2, False))      # a new shell process: exported variables and cwd are inherited, `set` options are not
            try:
                args = (("dash",) if ash else ("bash", "--norc", "--noprofile")) if op[2] else ()
                if ash and not args:
                    args = ("dash",)
                with m.subshell(*args):
                    run_prog(m, ash, op[1], stack, trace, depth + 1)
            except (Boom, BoomBase):
                trace.append(["caught", depth])
            finally:
                stack.pop()
        else:
            raise ValueError(op)


NAMES3 = ["FOO", "BAR_1", "_z"]
DIRS = {"/tmp": 1, "/usr": 2, "/": 3}


def _value_table(prog):
    tab = {"": 0}

    def walk(ops):
        for op in ops:
            if op[0] == "set" and op[2] not in tab:
                tab[op[2]] = len(tab)
            elif op[0] == "sub":
                walk(op[1])
    walk(prog)
    return tab


def prog_coq(prog, tab):
    out = []
    for op in prog:
        k = op[0]
        if k == "set":
            out.append(f"SSet {NAMES3.index(op[1]) + 1} {tab[op[2]]}")
        elif k == "cd":
            out.append(f"SCd {DIRS[op[1]]}")
        elif k == "opt":
            out.append("SOpt 1")
        elif k == "boom":
            out.append("SBoom")
        elif k == "sub":
            out.append(f"SSub {prog_coq(op[1], tab)} true")
    return "[" + "; ".join(out) + "]"


class SubshellE2E(Suite):
    """nested subshell programs on the real bash and dash; the final state is also compared with coq/Subshell.v"""
    name = "subshell_e2e"
    imports = ["Subshell"]
    model_fn = "subshell_model"
    shard = 40

    def coq_input(self, case):
        tab = _value_table(case["prog"])
        return f"({prog_coq(case['prog'], tab)}, [1; 2; 3])"

    def obs_term(self, case, obs):
        tab = _value_table(case["prog"])
        if any(t[0] in ("hang", "boom-escaped") for t in obs):
            return "(VL [])"
        gets = [t for t in obs if t[0] == "get"][-3:]
        pwds = [t for t in obs if t[0] == "pwd"]
        opts = [t for t in obs if t[0] == "opt"]
        cwd0 = [t for t in obs if t[0] == "cwd0"]
        if len(gets) < 3 or not pwds or not opts or not cwd0 or [g[1] for g in gets] != NAMES3:
            return "(VL [])"
        vals = [tab.get(g[3], 999) for g in gets]
        d = pwds[-1][2].rstrip("\n")
        cwd = 0 if d == cwd0[0][1] else DIRS.get(d, 999)
        return coq.V([vals, cwd, bool(opts[-1][2]), False])

    def run(self, case):
        import signal

        class Hang(Exception):
            pass

        def on_alarm(sig, frm):
            raise Hang()

        global _BOOM
        _BOOM = BoomBase if case.get("base_exc") else Boom
        trace = []
        old = signal.signal(signal.SIGALRM, on_alarm)
        signal.alarm(300)
        try:
            with sc.quiet_log():
                try:
                    with C01.RealBash() as lh:
                        with contextlib.ExitStack() as cx:
                            m = cx.enter_context(C01.RealDash(lh)) if case["ash"] else lh
                            m.ch.READ_CHUNK_SIZE = case["chunk"]
                            cwd0 = m.exec0("pwd").rstrip("\n")
                            trace.append(["cwd0", cwd0])
                            run_prog(m, case["ash"], case["prog"], [({}, cwd0, False)], trace)
                except Hang:
                    trace.append(["hang"])
                except (Boom, BoomBase):
                    trace.append(["boom-escaped"])
        finally:
            signal.alarm(0)
            signal.signal(signal.SIGALRM, old)
        return trace

    def oracle(self, case, obs):
        fails = []
        sh = "dash" if case["ash"] else "bash"
        for t in obs:
            if t[0] == "set" and t[3] != t[2]:
                fails.append(f"[real {sh}] env({t[1]!r}, {t[2]!r}) returned {t[3]!r}")
            elif t[0] == "get" and t[2] != t[3]:
                fails.append(f"[real {sh}] {t[1]} should hold {t[2]!r} here, env({t[1]!r}) returns {t[3]!r}")
            elif t[0] == "seen" and t[2] != t[3]:
                fails.append(f"[real {sh}] a child process sees {t[1]}={bytes.fromhex(t[3].strip() or '').decode('utf-8','replace')!r}, expected {bytes.fromhex(t[2].strip()).decode('utf-8','replace')!r}")
            elif t[0] == "pwd" and t[1] != t[2]:
                fails.append(f"[real {sh}] working directory is {t[2]!r}, expected {t[1]!r} (subshell isolation)")
            elif t[0] == "opt" and t[1] != t[2]:
                fails.append(f"[real {sh}] shell option -f is {t[2]}, expected {t[1]} (subshell isolation)")
            elif t[0] == "echo" and t[1] != t[2]:
                fails.append(f"[real {sh}] command after a subshell returned {t[2]!r}, expected {t[1]!r}")
            elif t[0] in ("hang", "boom-escaped"):
                fails.append(f"[real {sh}] {t[0]}")
        return fails

    def nontrivial(self, case, obs):
        return True

    def klass(self, case, obs):
        return ("dash" if case["ash"] else "bash") + ":%d" % case["chunk"]

    def finding_key(self, case, obs, failure):
        return None

    def gen(self, tier, rng):
        vals = ["-n", "-e x", "a\\tb", "a\\\\b", "x\\c", "\\0101", "tail ", " lead", "a\nb", "a\n", "ä€", "$HOME", "`id`", "*", "'", "\"", "a'b\"c", "\\", "", "plain", "~", "a b  c"]
        names = ["FOO", "BAR_1", "_z"]

        def ops(depth):
            out = []
            for _ in range(rng.randint(1, 4)):
                k = rng.random()
                if k < 0.35:
                    out.append(["set", rng.choice(names), rng.choice(vals) if rng.random() < 0.7 else "".join(rng.choice(ESC_ALPHA + "ä\n") for _ in range(rng.randint(1, 8)))])
                elif k < 0.5:
                    out.append(["get", rng.choice(names)])
                elif k < 0.6:
                    out.append(["seen", rng.choice(names)])
                elif k < 0.68:
                    out.append(["cd", rng.choice(["/tmp", "/usr", "/"])])
                elif k < 0.72:
                    out.append(["opt"])
                elif k < 0.92 and depth < 3:
                    body = ops(depth + 1)
                    if rng.random() < 0.35:
                        body.insert(rng.randint(0, len(body)), ["boom"])
                    out.append(["sub", body, rng.random() < 0.7])
                    out += [["echo", "after-" + str(depth)], ["get", rng.choice(names)], ["pwd"], ["chkopt"]]
                else:
                    out.append(["echo", rng.choice(["x", "a b", "$?"])])
            return out

        # fixed families: a body that changes everything and then raises, at every nesting level
        check = [["echo", "after"], ["get", "FOO"], ["get", "BAR_1"], ["seen", "FOO"], ["pwd"], ["chkopt"]]
        change = [["set", "FOO", "inner"], ["set", "BAR_1", "new"], ["cd", "/tmp"], ["opt"]]
        fixed = [
            [["set", "FOO", "outer"], ["sub", change + [["boom"]], True]] + check,
            [["set", "FOO", "outer"], ["sub", change, True]] + check,
            [["set", "FOO", "outer"], ["sub", [["boom"]] + change, True]] + check,
            [["set", "FOO", "o"], ["sub", [["set", "FOO", "l1"], ["sub", change + [["boom"]], True]] + check + [["set", "FOO", "l1b"]], True]] + check,
            [["set", "FOO", "o"], ["sub", [["sub", [["sub", change + [["boom"]], True]] + check, True]] + check, True]] + check,
            [["sub", change + [["boom"]], False]] + check,
            [["set", "FOO", "a\\tb"], ["sub", [["set", "FOO", "-n"], ["boom"]], True], ["get", "FOO"], ["seen", "FOO"]],
        ]
        epilogue = [["get", n] for n in names] + [["pwd"], ["chkopt"]]
        for k, prog in enumerate(fixed):
            for ash in (False, True):
                yield {"ash": ash, "chunk": 4096 if k % 2 else 1, "prog": prog + epilogue}
        # the same with bodies left by something that is not an Exception
        for k in (0, 3, 4):
            for ash in (False, True):
                yield {"ash": ash, "chunk": 4096, "prog": fixed[k] + epilogue, "base_exc": True}
        for i in range(48 if tier == "quick" else 400):
            prog = ops(0) + [["seen", names[0]]] + epilogue
            yield {"ash": i % 2 == 1, "chunk": rng.choice([1, 4096, 4096]), "prog": prog, "base_exc": i % 4 == 3}


class SubshellSim(C01.InitSim):
    """the reactive console of C01's init suite with a stack of shells: the spawn command starts an inner shell,
    `exit` ends it and the outer shell prompts again"""

    def __init__(self, cfg, rng, spawn):
        super().__init__(cfg, rng)
        self.spawn = spawn
        self.stack = []

    def react(self, line):
        self.lines.append(line.hex())
        n = len(self.lines)
        d = self.cfg["delays"][n - 1] if n - 1 < len(self.cfg["delays"]) else 0
        echo = C01.tty_echo_ref(line + b"\r", self.sh.echoctl)
        if line == self.spawn:
            self.stack.append(self.sh)
            self.sh = C01.LinuxSim()
            return self.frag(echo + self.sh.ps1, d)
        if line == b"exit" and self.stack:
            self.sh = self.stack.pop()
            return self.frag(echo + b"exit\r\n" + self.sh.ps1, d)
        echo, out, ps1 = self.sh.react(line)
        return self.frag(echo + out + ps1, d)


def _ires(fn):
    try:
        fn()
        return [0]
    except tbot.error.UncleanShellError:
        return [1]
    except TimeoutError:
        return [2, 1]
    except cc.Blocked:
        return [2, 2]
    except Exception as e:  # noqa
        return [8, type(e).__name__, str(e)[:80]]


class SubshellSimSuite(Suite):
    """Bash.subshell() / Ash.subshell() over a reactive console against coq/Sh.v subshell_enter / subshell_leave"""
    name = "subshell_sim"
    imports = ["Channel", "Hush", "Session", "Sh"]
    model_fn = "subshell_sim_model"
    shard = 100

    def run(self, case):
        from . import C18
        cfg = case["cfg"]
        rng = random.Random(case["seed"])
        clock = sc.VirtualClock()
        spawn = b"ash" if cfg["ash"] else b"bash --norc --noprofile"
        sim = SubshellSim(cfg, rng, spawn)
        io_ = C18.RecIO(sim, clock)
        r = [None, [], []]
        inside = []
        with sc.patched_clock(clock), sc.quiet_log():
            try:
                with C01.mk_machine(io_, cfg["ash"])() as m:
                    r[0] = [0]
                    cmgr = m.subshell()
                    r[1] = _ires(cmgr.__enter__)
                    if r[1] == [0]:
                        r[2] = _ires(lambda: cmgr.__exit__(None, None, None))
            except tbot.error.UncleanShellError:
                r[0] = [1]
            except TimeoutError:
                r[0] = [2, 1]
            except cc.Blocked:
                r[0] = [2, 2]
            except Exception as e:  # noqa
                r[0] = r[0] or [8, type(e).__name__, str(e)[:80]]
        stages = list(io_.stage_log)
        case["_stages"] = [[[t, d.hex()] for t, d in st] for st in stages]
        written = bytes(io_.written)
        return [r[0], r[1], r[2], clock.t, written, io_.unread(), inside, [bytes.fromhex(h).decode("latin1") for h in sim.lines]]

    def coq_input(self, case):
        ash = case["cfg"]["ash"]
        sts = [[[t, bytes.fromhex(d)] for t, d in st] for st in case["_stages"]]
        cfg = coq.lst(lambda x: coq.nlist(x.encode()), C01.init_lines(ash), "(list N)")
        spawn = b"ash" if ash else b"bash --norc --noprofile"
        return f"({coq.nlist(C01.ASH_BL if ash else C01.BASH_BL)}, PS1_LINE, {cfg}, {coq.nlist(spawn)}, {sc.stages_coq(sts)})"

    def obs_term(self, case, obs):
        r0, r1, r2 = obs[0], obs[1], obs[2]

        def ir(x):
            return [1] if x == [1] else x
        if r0 == [1] or r1 == [1]:
            return "(VL [])"       # UncleanShellError carries the offending output in the model: compared by the init suite
        return coq.V([r0, r1, r2, obs[3], obs[4], obs[5]])

    def oracle(self, case, obs):
        cfg = case["cfg"]
        fails = []
        fast = cfg["d0"] < 150 and all(d < 150 for d in cfg["delays"]) and cfg["gap"] <= 1
        lines = obs[7]
        if obs[1] == [0]:
            if lines.count("exit") != 1:
                fails.append(f"leaving the subshell sent `exit` {lines.count('exit')} times (the second one would leave the OUTER shell): lines {lines[-4:]}")
        if fast and (obs[0], obs[1], obs[2]) != ([0], [0], [0]):
            fails.append(f"the shells answer every line within 0.15 s but init / enter / leave gave {obs[0]!r} / {obs[1]!r} / {obs[2]!r}")
        if (obs[0], obs[1], obs[2]) == ([0], [0], [0]) and obs[5]:
            fails.append(f"console output left unread after the subshell was left: {obs[5]!r}")
        return fails

    def nontrivial(self, case, obs):
        return obs[1] == [0]

    def klass(self, case, obs):
        return ("ash:" if case["cfg"]["ash"] else "bash:") + f"{obs[0][:1]}{obs[1][:1]}{obs[2][:1]}"

    def finding_key(self, case, obs, failure):
        return None

    def gen(self, tier, rng):
        for _ in range(250 if tier == "quick" else 1500):
            slow = rng.random() < 0.4
            yield {"cfg": {"ash": rng.random() < 0.5, "banner": rng.choice(["", "Welcome\r\n"]),
                           "d0": rng.choice([0, 50]),
                           "delays": [rng.choice([0, 0, 100, 250, 600, 3500, 5000]) if slow else rng.choice([0, 0, 100]) for _ in range(30)],
                           "frag": rng.choice(["whole", "random", "bytes"]), "gap": rng.choice([0, 0, 1, 40]) if slow else rng.choice([0, 1])},
                   "seed": rng.randrange(1 << 30)}


class ReadonlyE2E(Suite):
    """a variable the shell refuses to change (made read-only earlier in the history, or owned by the shell): whatever
    env(var, value) RETURNS is what the variable holds afterwards -- for the shell and for its children; a refused
    assignment must not be reported as done.  Real bash and dash, oracle only."""
    name = "readonly_e2e"
    model_fn = None

    def run(self, case):
        import signal

        class Hang(Exception):
            pass

        def on_alarm(sig, frm):
            raise Hang()

        trace = []
        old = signal.signal(signal.SIGALRM, on_alarm)
        signal.alarm(120)
        try:
            with sc.quiet_log():
                try:
                    with C01.RealBash() as lh:
                        with contextlib.ExitStack() as cx:
                            m = cx.enter_context(C01.RealDash(lh)) if case["ash"] else lh
                            if case["sub"]:
                                m = cx.enter_context(m.subshell())
                            m.ch.READ_CHUNK_SIZE = case["chunk"]
                            name = case["name"]
                            if case["old"] is not None:
                                m.env(name, case["old"])
                                m.exec0("readonly", name)
                            try:
                                ret = m.env(name, case["new"])
                                trace.append(["set-returned", ret])
                            except tbot.error.CommandFailure:
                                trace.append(["set-refused"])
                            trace.append(["get", m.env(name)])
                            trace.append(["child", m.exec0("printenv", name).rstrip("\n")])
                            trace.append(["echo", m.exec0("echo", "still in sync")])
                except Hang:
                    trace.append(["hang"])
        finally:
            signal.alarm(0)
            signal.signal(signal.SIGALRM, old)
        return trace

    def oracle(self, case, obs):
        fails = []
        sh = "dash" if case["ash"] else "bash"
        d = {t[0]: t[1] if len(t) > 1 else None for t in obs}
        if "hang" in d:
            return [f"[real {sh}] hang"]
        if "set-returned" in d:
            for who in ("get", "child"):
                if d.get(who) != d["set-returned"]:
                    fails.append(f"[real {sh}] env({case['name']!r}, {case['new']!r}) returned {d['set-returned']!r} but the variable holds "
                                 f"{d.get(who)!r} ({'read back with env()' if who == 'get' else 'seen by a child process'}): the shell refused the assignment")
        elif case["old"] is not None and d.get("get") != case["old"]:
            fails.append(f"[real {sh}] read-only {case['name']} holds {d.get('get')!r} instead of {case['old']!r}")
        if d.get("echo") != "still in sync\n":
            fails.append(f"[real {sh}] the next command returned {d.get('echo')!r}")
        return fails

    def nontrivial(self, case, obs):
        return True

    def klass(self, case, obs):
        return ("dash" if case["ash"] else "bash") + ":" + obs[0][0]

    def finding_key(self, case, obs, failure):
        return None

    def gen(self, tier, rng):
        for ash in (False, True):
            # (not inside an Ash subshell: dash leaves a shell in which a special builtin fails, which is the environment's
            #  doing and outside the property)
            for sub in ((False,) if ash else (False, True)):
                yield {"ash": ash, "sub": sub, "chunk": 4096, "name": "TBOT_RO", "old": "old value", "new": "new"}
                yield {"ash": ash, "sub": sub, "chunk": 1, "name": "TBOT_RO2", "old": "", "new": "x y"}
            yield {"ash": ash, "sub": False, "chunk": 4096, "name": "TBOT_FREE", "old": None, "new": "plain set"}
        yield {"ash": False, "sub": False, "chunk": 4096, "name": "UID", "old": None, "new": "12345"}       # bash owns UID (read-only)


SUITES = [EchoSuite(), EnvSuite(), SubshellE2E(), SubshellSimSuite(), ReadonlyE2E()]


def extra_obligations(tier):
    """the translated part of the model: regenerated from the current source and re-proved equal to what the theorems use"""
    from vlib import gen
    return gen.obligations(only=["gen_blacklists_are_the_model", "gen_prompts_are_the_model", "gen_probe_loop_is_the_model", "gen_init_lines_are_the_model", "gen_env_lines_are_the_model"])
