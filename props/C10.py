"""C10 -- interactive commands: output, exit status and early exit are reported faithfully."""
import contextlib
import os
import random
import signal

import tbot
import tbot.error
from tbot.machine import linux
from tbot.machine.channel import channel as chmod_

from vlib import coq
from vlib.framework import Suite
from . import shell_common as sc
from . import chan_common as cc
from . import C01

PROP = "C10"
TRUSTED = [
    "Coq 8.16.1 kernel; vm_compute for correspondence evaluation; no native_compute",
    "model coq/Proxy.v (run(): borrow, command line, prompt as death string; RunCommandProxy states running / ended early / terminated; terminate, terminate0, _assert_end) over coq/Channel.v and coq/Session.v, hand-written; tie = correspondence with the real linux.Bash / linux.Ash run() over a staged simulated console",
    "the simulated interactive program of the harness (banner, own prompt, a response per input line, exit early / on a given line) and, end to end, real helper programs on the real bash and dash",
    "the log-event stream attached by run() is not part of the model; ownership of the parent channel (ChannelBorrowedError) is C07's model and is checked here by the oracle only",
]
ASSUMPTIONS = [
    "the program's output does not contain the shell prompt (it is the sentinel that marks the program's end)",
    "terminate() is called when the program has ended or ends by itself; a program that never ends makes terminate() wait (reported as blocked)",
]
RULE = ("interaction scripts of 0-6 operations (read_until_prompt with the program's own prompt, sendline / send with and without read-back, expect, read_until_timeout, sendcontrol, read) against simulated programs that exit early (right after the banner), on a given input line, or only at the end; "
        "statuses 0..255; terminate / terminate0 / no terminate / double terminate; a raising body; proxy operations after the context; a final exec on the machine; reactions fragmented at random, byte by byte, with delays; "
        "end to end: a helper program on the real bash and dash; non-trivial = the program exits while the script still interacts, or the script has >= 3 operations; distinct by case hash")

OWN = b"(hlp) "
TBOT_PROMPT = C01.TBOT_PROMPT


class Boom(Exception):
    pass


class ProgSim(C01.LinuxSim):
    """the console while an interactive program may be running in the foreground"""

    def __init__(self, prog):
        super().__init__()
        self.prog = prog
        self.running = False
        self.just_ended = False
        self.total_out = b""

    def react(self, line: bytes):
        echo = C01.tty_echo_ref(line + b"\r", self.echoctl)
        if self.running:
            p = self.prog
            out = p["responses"].get(line.decode("latin1"), "").encode("latin1") if line.decode("latin1") in p["responses"] else b"? " + line + b"\n"
            if p["exit_on"] is not None and line == p["exit_on"].encode():
                out += bytes.fromhex(p["final"])
                self.running = False
                self.status = p["status"]
                self.just_ended = True
                tail = self.ps1
            else:
                tail = OWN
            self.total_out += out + (OWN if tail == OWN else b"")
            return echo, out.replace(b"\n", b"\r\n"), tail
        argv = None
        try:
            argv = C01.sh_ref(line)
        except C01.Stuck:
            pass
        if argv and argv[0] == b"hlp":
            p = self.prog
            out = bytes.fromhex(p["banner"])
            if p["early"]:
                out += bytes.fromhex(p["final"])
                self.status = p["status"]
                self.just_ended = True
                self.total_out += out
                return echo, out.replace(b"\n", b"\r\n"), self.ps1
            self.running = True
            self.total_out += out + OWN
            return echo, out.replace(b"\n", b"\r\n"), OWN
        out = self.execute(line).replace(b"\n", b"\r\n")
        return echo, out, self.ps1


def lines_of(step):
    """the complete lines a script step puts on the wire (for the simulator): list of bytes"""
    k = step[0]
    if k == "sendline":
        d = step[1]["str"].encode() if isinstance(step[1], dict) else bytes.fromhex(step[1])
        return [d]
    return []


def run_case(case):
    import copy
    ash = case["ash"]
    rng = random.Random(case["seed"])
    clock = sc.VirtualClock()
    sim = ProgSim(case["prog"])
    io = sc.StageIO([], case["accept"], clock, initial=[[0, b"$ "]])
    io.reactor = lambda line: b"".join(C01.LinuxSim.react(sim, line))
    step_stages = {"script": [], "post": []}
    consumed = {"script": [], "post": []}

    def stage_for(line, skip_echo=True):
        sim.just_ended = False
        echo, out, pr = sim.react(line)
        data = echo + out + pr
        trail = bytes.fromhex(case["prog"].get("trail", "")) if sim.just_ended else b""
        if trail:
            # a background child prints right behind the shell prompt: the prompt ends in the MIDDLE of a piece
            head = data[:-1]
            pieces = sc.fragment(rng, head, len(echo) if skip_echo else 0, pr, one_byte=(case["frag"] == "bytes"),
                                 maxpieces=(1 if case["frag"] == "whole" else 6), lookalike_ok=True)
            pieces = [bytes(x) for x in pieces]
            pieces[-1] = pieces[-1] + data[-1:] + trail
        else:
            pieces = sc.fragment(rng, data, len(echo) if skip_echo else 0, pr, one_byte=(case["frag"] == "bytes"),
                                 maxpieces=(1 if case["frag"] == "whole" else 6))
        return sc.timed_stage(rng, pieces, maxgap=case.get("maxgap", 0))

    def stepwise(p, steps, key):
        """run the steps one at a time; the simulator reacts to a step's line only if the line was really sent"""
        out = []
        for step in steps:
            snap = copy.deepcopy((sim.running, sim.status, sim.total_out, sim.argvs))
            sts = []
            for ln in lines_of(step):
                sts.append(stage_for(ln, skip_echo=bool(step[2])))
            if step[0] in ("terminate", "terminate0"):
                sts.append(stage_for(b"echo $?"))
            io.stages = [[[t, bytes(d)] for t, d in st] for st in sts]
            io.armed = True
            before = len(io.written)
            io.chunks = []
            out.append(do_step(p, step))
            consumed[key].append(b"".join(io.chunks).hex())
            if len(io.written) == before:
                sim.running, sim.status, sim.total_out, sim.argvs = snap
            io.stages = []
            step_stages[key].append([[[t, d.hex()] for t, d in st] for st in sts])
        return out

    with sc.patched_clock(clock), sc.quiet_log():
        with C01.mk_machine(io, ash)() as m:
            io.reactor = None
            io.accept = list(case["accept"])
            base_written = len(io.written)
            io.pend = []
            args = case["args"]
            st0 = stage_for(m.escape(*args).encode("utf-8"))
            io.stages = [[[t, bytes(d)] for t, d in st0]]
            io.armed = True
            v0, vs, vleave, vpost, vfinal = [0], [], [0], [], []
            final_sts = []
            borrowed_ok = None
            proxy = None
            try:
                with m.run(*args) as p:
                    proxy = p
                    try:
                        m.ch.read(1, timeout=0.5)
                        borrowed_ok = False
                    except tbot.error.ChannelBorrowedError:
                        borrowed_ok = True
                    except Exception as e:  # noqa
                        borrowed_ok = repr(e)
                    vs = stepwise(p, case["script"], "script")
                    if case["boom"]:
                        raise Boom()
            except Boom:
                vleave = [12]
            except RuntimeError as e:
                vleave = [11] if "terminated before leaving" in str(e) else [98, str(e)]
            except tbot.error.IllegalDataException:
                v0 = [5]
            except Exception as e:  # noqa
                if proxy is None:
                    v0 = cc._exc_obs(e)
                else:
                    vleave = [97, type(e).__name__, str(e)[:80]]
            if v0 == [0]:
                vpost = stepwise(proxy, case["post"], "post")
                if case["final"] is not None:
                    for ln in (m.escape(*case["final"]).encode("utf-8"), b"echo $?"):
                        final_sts.append(stage_for(ln))
                    io.stages = [[[t, bytes(d)] for t, d in st] for st in final_sts]
                    io.armed = True
                    try:
                        rc, out = m.exec(*case["final"])
                        vfinal = [0, rc, out]
                    except tbot.error.InvalidRetcodeError as e:
                        vfinal = [1, e.retcode_str]
                    except Exception as e:  # noqa
                        vfinal = [2, sc.exc_kind(e)]
            written = bytes(io.written[base_written:])
            unread = io.unread()
            io.pend = []
    case["_st0"] = [[t, d.hex()] for t, d in st0]
    case["_script_stages"] = step_stages["script"]
    case["_post_stages"] = step_stages["post"]
    case["_final_stages"] = [[[t, d.hex()] for t, d in st] for st in final_sts]
    info = {"borrowed": borrowed_ok, "total": sim.total_out.hex(), "status": case["prog"]["status"], "consumed": consumed["script"]}
    if v0 != [0]:
        return [[v0], info]
    return [[v0, vs, vleave, vpost, vfinal, written, unread], info]


def do_step(p, step):
    k = step[0]
    try:
        if k == "sendline":
            data = step[1]["str"] if isinstance(step[1], dict) else bytes.fromhex(step[1])
            p.sendline(data, read_back=step[2])
            return [0]
        if k == "send":
            data = step[1]["str"] if isinstance(step[1], dict) else bytes.fromhex(step[1])
            p.send(data, read_back=step[2])
            return [0]
        if k == "rup":
            return [1, p.read_until_prompt(None if step[1] is None else cc.sstr_py(step[1]), timeout=cc._tmo(step[2]))]
        if k == "rut":
            return [1, p.read_until_timeout(cc._tmo(step[1]))]
        if k == "read":
            return [1, bytes(p.read(step[1], timeout=cc._tmo(step[2])))]
        if k == "expect":
            er = p.expect([cc.sstr_py(x) for x in step[1]], timeout=cc._tmo(step[2]))
            mt = er.match
            if isinstance(mt, str):
                mt = cc.sstr_bytes(step[1][er.i])
            else:
                mt = mt[0]
            return [7, er.i, bytes(mt), er.before, er.after]
        if k == "sendctl":
            p.sendcontrol(chr(step[1]))
            return [0]
        if k == "add_death":
            p.add_death_string(cc.sstr_py(step[1]), cc.EXC[step[2]])
            return [0]
        if k == "terminate":
            rc, out = p.terminate()
            return [0, rc, out]
        if k == "terminate0":
            out = p.terminate0()
            return [0, 0, out]
        raise ValueError(step)
    except linux.CommandEndedException:
        return [10]
    except tbot.error.CommandFailure:
        return [1]
    except tbot.error.InvalidRetcodeError as e:
        return [3, e.retcode_str]
    except AssertionError:
        return [6]
    except IndexError:
        return [97]
    except (TimeoutError, cc.Blocked, tbot.error.IllegalDataException, chmod_.DeathStringException) as e:
        r = cc._exc_obs(e)
        if k in ("terminate", "terminate0"):
            return [2, sc.exc_kind(e)]
        return r


def step_coq(step, stages):
    sts = sc.stages_coq(unhex_stages(stages))
    if step[0] in ("terminate", "terminate0"):
        return f"(PTerm {coq.boolean(step[0] == 'terminate0')} {sts})"
    return f"(PIo {cc.op_coq(step_as_op(step))} {sts})"


def step_as_op(step):
    k = step[0]
    if k in ("sendline", "send"):
        return [k, step[1], step[2], None]
    return step


def unhex_stages(sts):
    return [[[t, bytes.fromhex(d)] for t, d in st] for st in sts]


class ProxySuite(Suite):
    name = "proxy"
    imports = ["Channel", "ChannelCorr", "Hush", "Session", "Sh", "Proxy"]
    model_fn = "proxy_model"
    shard = 120

    def run(self, case):
        return run_case(case)

    def coq_input(self, case):
        args = coq.lst(sc.codepoints, case["args"], "(list N)")
        script = coq.lst(lambda x: step_coq(*x), list(zip(case["script"], case["_script_stages"])), "pstep")
        post = coq.lst(lambda x: step_coq(*x), list(zip(case["post"], case["_post_stages"])), "pstep")
        if case["final"] is None or not case["_final_stages"]:
            final = "None"
        else:
            final = f"(Some ({coq.lst(sc.codepoints, case['final'], '(list N)')}, {sc.stages_coq(unhex_stages(case['_final_stages']))}))"
        st0 = sc.stages_coq(unhex_stages([case["_st0"]]))
        return (f"({coq.boolean(case['ash'])}, {coq.natlist(case['accept'])}, {args}, {st0}, "
                f"{script}, {coq.boolean(case['boom'])}, {post}, {final})")

    def obs_term(self, case, obs):
        return coq.V(obs[0])

    def oracle(self, case, obs):
        fails = []
        main, info = obs
        prog = case["prog"]
        if len(main) == 1:
            return []
        v0, vs, vleave, vpost, vfinal, written, unread = main
        if info["borrowed"] is not True:
            fails.append(f"the machine's own channel was usable while the command ran: {info['borrowed']!r}")
        disciplined = case.get("disciplined", False)
        got = ""
        ended_seen = False          # an interaction raised CommandEndedException
        term_ok = False             # terminate()/terminate0() completed (returned or raised CommandFailure)
        term_tried = False
        total = sc.py_text(bytes.fromhex(info["total"]).replace(b"\n", b"\r\n")).replace("\r", "")
        prog_ends = prog["early"]
        for step, r in zip(case["script"], vs):
            k = step[0]
            is_term = k in ("terminate", "terminate0")
            if term_ok:
                if is_term:
                    if r != [6]:
                        fails.append(f"second {k}() gave {r!r} instead of an assertion error")
                elif r != [10]:
                    fails.append(f"proxy operation {step!r} after termination gave {r!r} instead of CommandEndedException")
                continue
            if term_tried:
                continue            # a terminate that failed (misuse): nothing is promised
            if k == "sendline" and prog["exit_on"] is not None and not prog["early"]:
                d = step[1]["str"].encode() if isinstance(step[1], dict) else bytes.fromhex(step[1])
                if d == prog["exit_on"].encode():
                    prog_ends = True
            if is_term:
                term_tried = True
                term_ok = r[0] == 0 or r == [1]
                if not disciplined:
                    continue
                if r[0] == 0:
                    got += r[2]
                    if r[1] != prog["status"]:
                        fails.append(f"{k}() returned status {r[1]}, the program exited with {prog['status']}")
                    if k == "terminate0" and prog["status"] != 0:
                        fails.append(f"terminate0() did not raise although the status is {prog['status']}")
                    if ended_seen and r[2] != "":
                        fails.append(f"{k}() after an early exit returned output {r[2]!r}")
                    lossy = any(rr == [2] for rr in vs)        # a read that times out drops what it had consumed (inherent to the API)
                    if not ended_seen and not lossy and got.replace("\r", "") != total:
                        fails.append(f"data obtained through the proxy + terminate() = {got!r}, the program printed {total!r}")
                elif r == [1]:
                    if not (k == "terminate0" and prog["status"] != 0):
                        fails.append(f"{k}() raised CommandFailure, status is {prog['status']}")
                else:
                    fails.append(f"{k}() gave {r!r}")
                continue
            if ended_seen:
                if r != [10]:
                    fails.append(f"proxy operation {step!r} after the command ended gave {r!r} instead of CommandEndedException")
                continue
            if r == [10]:
                ended_seen = True
                if not prog_ends and disciplined:
                    fails.append(f"{step!r} raised CommandEndedException although the program is still running")
                continue
            if k in ("rup", "rut", "read", "expect"):
                if r[0] == 1:
                    data = r[1] if isinstance(r[1], str) else bytes(r[1]).decode("utf-8", "replace")
                    got += data
                    if k == "rup" and step[1] is not None:
                        got += cc.sstr_bytes(step[1]).decode()
                    if TBOT_PROMPT.decode() in data:
                        fails.append(f"{step!r} returned the shell prompt as data: {data!r}")
                    elif any(TBOT_PROMPT[j:].decode() in data for j in range(1, 8)):
                        # the head of the prompt was swallowed silently by an earlier operation (e.g. a read-back)
                        fails.append(f"{step!r} returned the shell prompt minus its first bytes as data: {data!r}")
                elif r[0] == 7:
                    got += r[3] + bytes(r[2]).decode() + r[4]
        terminated = term_ok
        if disciplined:
            dead = prog["early"]
            for step, r, ch in zip(case["script"], vs, info.get("consumed", [])):
                if step[0] in ("terminate", "terminate0"):
                    break
                timed = (step[0] == "rut") or (step[0] in ("rup", "expect", "read") and step[2] is not None)
                # a timed read may return before the rest of the program's output and the prompt have arrived
                foreign = (step[0] == "expect" and all(x != {"lit": OWN.hex()} for x in step[1])) or (step[0] == "read" and step[1] == -1)
                arrived = (not (timed or foreign)) or (TBOT_PROMPT in bytes.fromhex(ch))
                if dead and arrived and step[0] in ("rup", "rut", "expect", "read") and r != [10]:
                    fails.append(f"the program had ended, but {step!r} gave {r!r} instead of raising CommandEndedException")
                    break
                if r == [10]:
                    break
                if step[0] == "sendline" and prog["exit_on"] is not None and step[1].get("str") == prog["exit_on"] and r == [0]:
                    dead = True
        if not case["boom"]:
            if not terminated and vleave != [11]:
                fails.append(f"leaving the context without terminate gave {vleave!r} instead of RuntimeError")
            if terminated and vleave != [0]:
                fails.append(f"leaving the context after terminate gave {vleave!r}")
        elif vleave != [12]:
            fails.append(f"the body's exception did not propagate: {vleave!r}")
        if terminated:
            for step, r in zip(case["post"], vpost):
                if step[0] not in ("terminate", "terminate0") and r != [10]:
                    fails.append(f"proxy operation {step!r} after termination gave {r!r} instead of CommandEndedException")
            if case["final"] is not None and not fails and disciplined:
                want = [0, 0, " ".join(case["final"][1:]) + "\n"] if case["final"][0] == "echo" else None
                if want is not None and vfinal != want:
                    fails.append(f"the next command on the machine returned {vfinal!r}, expected {want!r} (out of sync)")
                if unread:
                    fails.append(f"console output left unread: {unread!r}")
        return fails

    def nontrivial(self, case, obs):
        return len(case["script"]) >= 3 or case["prog"]["early"]

    def klass(self, case, obs):
        p = case["prog"]
        return ("ash:" if case["ash"] else "bash:") + ("early" if p["early"] else "exit-on" if p["exit_on"] else "never") + ":" + case["frag"]

    def finding_key(self, case, obs, failure):
        # a timed read that expires in the middle of the shell prompt takes the prompt's first bytes with it
        main, info = obs
        if len(main) == 1:
            return None
        for step, r, ch in zip(case["script"], main[1], info.get("consumed", [])):
            if step[0] in ("terminate", "terminate0") or r == [10]:
                break
            timed = (step[0] == "rut") or (step[0] in ("rup", "expect", "read") and step[2] is not None)
            data = bytes.fromhex(ch)
            if timed and any(data.endswith(TBOT_PROMPT[:k]) for k in range(1, len(TBOT_PROMPT))):
                return "C10:timed-read-splits-shell-prompt"
            # an expect() for something the program printed, satisfied by a piece that ends inside the shell prompt
            if step[0] == "expect" and r[0] == 7 and any(data.endswith(TBOT_PROMPT[:k]) for k in range(1, len(TBOT_PROMPT))):
                return "C10:expect-match-in-piece-ending-inside-shell-prompt"
            # a plain read() (no size, no timeout) that returns a piece ending inside the shell prompt
            if step[0] == "read" and step[1] == -1 and step[2] is None and r[0] == 1 and \
                    any(data.endswith(TBOT_PROMPT[:k]) for k in range(1, len(TBOT_PROMPT))):
                return "C10:plain-read-returns-piece-ending-inside-shell-prompt"
        return None

    def gen(self, tier, rng):
        n = 900 if tier == "quick" else 7000
        own = {"lit": OWN.hex()}
        for i in range(n):
            early = rng.random() < 0.25
            exit_on = rng.choice(["quit", "quit", "q", None]) if not early else None
            prog = {"banner": rng.choice([b"helper 1.0\n", b"", b"line1\nline2 \xc3\xa4\n", b"x" * 600 + b"\n", b"$ not a prompt\n"]).hex(),
                    "responses": {"ping": "pong\n", "two": "a\nb\n", "big": "y" * 700 + "\n", "quit": "", "q": "bye\n", "empty": ""},
                    "exit_on": exit_on, "early": early, "status": rng.choice([0, 0, 1, 2, 7, 127, 255]),
                    "final": rng.choice([b"", b"exiting\n", b"last line without newline"]).hex(),
                    "trail": rng.choice([b"", b"", b"", b"bg\r\n", b"[1]+ Done sleep\r\n", b"x" * 30]).hex()}
            script = []
            disciplined = rng.random() < 0.6
            k = rng.randint(0, 5)
            if disciplined:
                # read to the program's prompt before every line sent (with read-back); nothing is sent after the exit line
                if early:
                    x = rng.random()
                    if x < 0.4:
                        script.append(rng.choice([["rup", own, None], ["expect", [own], None], ["rup", own, 4096]]))
                    elif x < 0.5:
                        script.append(["read", -1, None])       # plain read(): whatever is there, scanned like any other read
                    elif x < 0.75:
                        # waiting for something the program prints before it exits: whether the match or the shell prompt
                        # ends the wait depends on the fragmentation (both in one piece: the command has ended)
                        words = [w for w in (bytes.fromhex(prog["banner"]) + bytes.fromhex(prog["final"])).split() if len(w) >= 4 and w != b"prompt"]
                        if words:
                            script.append(["expect", [{"lit": rng.choice(words)[:6].hex()}], None])
                else:
                    script.append(["rup", own, None])
                    for _ in range(rng.randint(0, 3)):
                        script.append(["sendline", {"str": rng.choice(["ping", "two", "big", "empty", "nope"])}, True])
                        script.append(rng.choice([["rup", own, None], ["rup", own, None], ["expect", [own], None]]))
                    if exit_on is not None and rng.random() < 0.85:
                        script.append(["sendline", {"str": exit_on}, True])
                        if rng.random() < 0.3:
                            script.append(rng.choice([["rup", own, None], ["rut", 512], ["expect", [own], 1024]]))   # interacting with a dead program
            else:
                if not early and rng.random() < 0.8:
                    script.append(["rup", own, None])
                for _ in range(k):
                    c = rng.random()
                    if c < 0.35:
                        ln = rng.choice(["ping", "two", "big", "empty", "nope"])
                        script.append(["sendline", {"str": ln}, rng.random() < 0.85])
                        if rng.random() < 0.8:
                            script.append(["rup", own, None])
                    elif c < 0.45:
                        script.append(["expect", [{"lit": b"pong".hex()}, own], rng.choice([None, 2048])])
                    elif c < 0.55:
                        script.append(["rut", rng.choice([512, 1024])])
                    elif c < 0.6:
                        script.append(["read", rng.randint(1, 5), 1024])
                    elif c < 0.7:
                        script.append(["rup", own, rng.choice([None, 4096])])
                    elif c < 0.75:
                        script.append(["sendctl", rng.choice([ord("A"), ord("G")])])
                    else:
                        script.append(["sendline", {"str": rng.choice(["ping", "two"])}, True])
                if exit_on is not None and rng.random() < 0.85:
                    script.append(["sendline", {"str": exit_on}, rng.random() < 0.9])
                    if rng.random() < 0.25:
                        script.append(rng.choice([["rup", own, None], ["sendline", {"str": "ping"}, True], ["rut", 512]]))
            if disciplined and rng.random() < 0.25:
                # a death string of the test's own on the proxy, never removed: terminate() must still take down exactly
                # the entry that run() registered for the shell prompt
                script.insert(0, ["add_death", {"lit": b"FATAL ERROR".hex()}, 1])
            t = rng.random()
            ends = early or (exit_on is not None and any(s[0] == "sendline" and isinstance(s[1], dict) and s[1]["str"] == exit_on for s in script))
            if ends and t < 0.8:
                script.append([rng.choice(["terminate", "terminate0"])])
                if rng.random() < 0.15:
                    script.append(["terminate"])
                if rng.random() < 0.2:
                    script.append(rng.choice([["rup", own, None], ["sendline", {"str": "ping"}, False], ["read", 1, 512]]))
            # output behind the shell prompt (a background child) only where an untimed read of the script will meet the prompt
            dead_read = False
            if disciplined:
                if early:
                    first = [x for x in script if x[0] != "add_death"][:1]
                    dead_read = bool(first) and first[0] in (["rup", own, None], ["expect", [own], None])
                else:
                    for a, b in zip(script, script[1:]):
                        if a[0] == "sendline" and a[1].get("str") == exit_on and b[0] in ("rup", "expect") and b[2] is None:
                            dead_read = True
            if not dead_read:
                prog["trail"] = ""
            boom = (not ends or t >= 0.8) and rng.random() < 0.3
            terminated = any(s[0].startswith("terminate") for s in script)
            post = [rng.choice([["read", 1, 512], ["sendline", {"str": "x"}, False], ["rup", own, 512]])] if (terminated and rng.random() < 0.5) else []
            final = ["echo", "back", "in", "sync"] if terminated and not boom else None
            yield {"ash": i % 2 == 1, "accept": [rng.randint(1, 300) for _ in range(rng.randint(0, 2))], "args": ["hlp"] + [rng.choice(["-x", "a b", "'q'"]) for _ in range(rng.randint(0, 2))],
                   "prog": prog, "script": script, "disciplined": disciplined, "boom": boom, "post": post, "final": final, "seed": rng.randrange(1 << 30),
                   "frag": rng.choice(["whole", "random", "random", "bytes"]), "maxgap": rng.choice([0, 0, 256])}


# ------------------------------------------------------------------ end to end
HELPER = os.path.join(os.path.dirname(os.path.abspath(__file__)), "interactive_helper.py")


class Hang(Exception):
    pass


def _on_alarm(sig, frm):
    raise Hang()


class ProxyE2E(Suite):
    name = "proxy-e2e"
    model_fn = None

    def run(self, case):
        res = []
        old = signal.signal(signal.SIGALRM, _on_alarm)
        signal.alarm(240)
        try:
            with sc.quiet_log():
                try:
                    with C01.RealBash() as lh:
                        with contextlib.ExitStack() as cx:
                            m = cx.enter_context(C01.RealDash(lh)) if case["ash"] else lh
                            m.ch.READ_CHUNK_SIZE = case["chunk"]
                            for run in case["runs"]:
                                rr = []
                                try:
                                    with m.run("/venv/bin/python", HELPER, str(run["status"]), str(run["early"]), run["banner"]) as p:
                                        try:
                                            m.ch.read(1, timeout=0.5)
                                            rr.append(["borrowed", False])
                                        except tbot.error.ChannelBorrowedError:
                                            rr.append(["borrowed", True])
                                        for step in run["script"]:
                                            rr.append([step[0]] + do_step_e2e(p, step))
                                        if run["boom"]:
                                            raise Boom()
                                    rr.append(["left", 0])
                                except Boom:
                                    rr.append(["left", 12])
                                except RuntimeError:
                                    rr.append(["left", 11])
                                for step in run["post"]:
                                    rr.append(["post"] + do_step_e2e(p, step))
                                res.append(rr)
                                if any(s[0].startswith("terminate") for s in run["script"]):
                                    res.append([["next", m.exec0("printf", "%s", "sync")]])
                                else:
                                    break
                except Hang:
                    res.append([["hang"]])
        finally:
            signal.alarm(0)
            signal.signal(signal.SIGALRM, old)
        return res

    def oracle(self, case, obs):
        fails = []
        sh = ("dash" if case["ash"] else "bash") + f", READ_CHUNK_SIZE={case['chunk']}"
        it = iter(obs)
        for run in case["runs"]:
            rr = next(it, None)
            if rr is None or rr == [["hang"]]:
                fails.append(f"[real {sh}] run {run!r}: {'no result' if rr is None else 'hang'}")
                break
            d = {}
            steps = [x for x in rr if x[0] not in ("borrowed", "left", "post")]
            for x in rr:
                if x[0] == "borrowed" and x[1] is not True:
                    fails.append(f"[real {sh}] machine channel usable while the command runs")
            got = ""
            ended = False
            term = None
            for step, x in zip(run["script"], steps):
                r = x[1:]
                if step[0] in ("terminate", "terminate0"):
                    term = r
                    if r[0] == 0:
                        got += r[2]
                elif r == [10]:
                    ended = True
                elif r[0] == 1:
                    got += r[1] + (OWN.decode() if step[0] == "rup" else "")
            expected = expected_output(run)
            if term is not None:
                want_st = run["status"]
                if term[0] == 0 and term[1] != want_st:
                    fails.append(f"[real {sh}] terminate returned status {term[1]}, the program exited with {want_st}")
                if term == [1] and not (any(s[0] == "terminate0" for s in run["script"]) and want_st != 0):
                    fails.append(f"[real {sh}] CommandFailure although status {want_st}")
                if term[0] == 0 and not ended and got.replace("\r", "") != expected:
                    fails.append(f"[real {sh}] proxy data + terminate() = {got!r}, the program printed {expected!r}")
            if run["early"] and not ended and any(s[0] == "rup" for s in run["script"][:1]):
                fails.append(f"[real {sh}] the program exited early but the interaction did not raise CommandEndedException: {steps[:2]!r}")
            left = [x for x in rr if x[0] == "left"]
            if left:
                want = 12 if run["boom"] else (0 if term is not None else 11)
                if left[0][1] != want:
                    fails.append(f"[real {sh}] leaving the context gave {left[0][1]}, expected {want}")
            for x in rr:
                if x[0] == "post" and term is not None and x[1:] != [10]:
                    fails.append(f"[real {sh}] proxy operation after termination gave {x[1:]!r}")
            if term is not None:
                nx = next(it, None)
                if nx != [["next", "sync"]]:
                    fails.append(f"[real {sh}] the next command returned {nx!r} (out of sync)")
            else:
                break       # the program is still running in the foreground: the machine cannot be used any further
        return fails

    def nontrivial(self, case, obs):
        return True

    def klass(self, case, obs):
        return ("dash" if case["ash"] else "bash") + ":%d" % case["chunk"]

    def finding_key(self, case, obs, failure):
        return None

    def gen(self, tier, rng):
        for i in range(40 if tier == "quick" else 300):
            runs = []
            for _ in range(rng.randint(1, 3)):
                early = rng.random() < 0.3
                script = []
                if early:
                    if rng.random() < 0.7:
                        script.append(["rup"])
                else:
                    script.append(["rup"])
                    for _ in range(rng.randint(0, 3)):
                        script.append(["sendline", rng.choice(["ping", "two", "big"]), True])
                        script.append(["rup"])
                    script.append(["sendline", "quit", True])
                    if rng.random() < 0.2:
                        script.append(["rup"])
                t = rng.random()
                if t < 0.85:
                    script.append([rng.choice(["terminate", "terminate0"])])
                boom = t >= 0.85 and rng.random() < 0.5
                runs.append({"status": rng.choice([0, 0, 1, 3, 255]), "early": 1 if early else 0, "banner": rng.choice(["hello", "", "multi word banner ä"]),
                             "script": script, "boom": boom, "post": [["rup"]] if t < 0.85 and rng.random() < 0.5 else []})
            yield {"ash": i % 2 == 1, "chunk": rng.choice([1, 4096, 4096]), "runs": runs}


def do_step_e2e(p, step):
    try:
        if step[0] == "rup":
            return [1, p.read_until_prompt(OWN.decode(), timeout=20)]
        if step[0] == "sendline":
            p.sendline(step[1], read_back=step[2])
            return [0]
        if step[0] == "terminate":
            rc, out = p.terminate()
            return [0, rc, out]
        if step[0] == "terminate0":
            return [0, 0, p.terminate0()]
    except linux.CommandEndedException:
        return [10]
    except tbot.error.CommandFailure:
        return [1]
    except TimeoutError:
        return [2]
    except AssertionError:
        return [6]
    raise ValueError(step)


def expected_output(run):
    out = run["banner"] + "\n" if run["banner"] else ""
    if run["early"]:
        return out + "bye\n"
    out += OWN.decode()
    for step in run["script"]:
        if step[0] == "sendline":
            out += {"ping": "pong\n", "two": "a\nb\n", "big": "y" * 700 + "\n", "quit": "bye\n"}[step[1]]
            if step[1] != "quit":
                out += OWN.decode()
    return out


SUITES = [ProxySuite(), ProxyE2E()]
