"""C11 -- file contents written through a Path are read back identically."""
import base64
import contextlib
import os
import random
import shutil
import signal

import tbot
import tbot.error
from tbot.machine import linux

from vlib import coq
from vlib.framework import Suite
from . import shell_common as sc
from . import C01
from . import chan_common as cc

PROP = "C11"
TRUSTED = [
    "Coq 8.16.1 kernel; vm_compute for correspondence evaluation; no native_compute",
    "model coq/Base64.v (b64encode, the skipping decoder of `base64 -d` / b64decode, 76-column lines) hand-written; tie = correspondence with CPython's base64 module and the sandbox's base64 tool",
    "the transfer protocol itself (run() proxy, tee, ^D handling, terminate0) is decided end-to-end on the real bash and dash with the file read directly from the file system; its session model is the one of C10",
]
ASSUMPTIONS = [
    "texts contain no CR and no byte the shell class forbids; lines stay below the tty's canonical-mode limit (4095 bytes)",
    "GNU coreutils base64 / tee on the remote side",
]
RULE = ("byte strings: every length 0..200 with random content, lengths around the 57-byte / 76-character line boundary multiples and the 512-byte send slices, all 256 byte values, long runs of one value; "
        "texts: empty, one line with and without final newline, many lines, non-ASCII, lines of 500-1500 characters, texts containing the string 'tee: ', trailing blank lines; on bash and dash with READ_CHUNK_SIZE 1 and 4096; "
        "non-trivial = length >= 57 or multi-line text; distinct by case hash")


class B64Suite(Suite):
    name = "b64"
    imports = ["Base64"]
    model_fn = "b64_model"
    shard = 200

    def run(self, case):
        d = bytes.fromhex(case["data"])
        enc = base64.b64encode(d)
        lines = [enc[i:i + 76] for i in range(0, len(enc), 76)]
        wrapped = b"".join(ln + b"\n" for ln in lines)
        return [enc, lines, base64.b64decode(wrapped.decode("ascii"))]

    def coq_input(self, case):
        return coq.nlist(bytes.fromhex(case["data"]))

    def oracle(self, case, obs):
        d = bytes.fromhex(case["data"])
        return [] if obs[2] == d else [f"base64 round trip of {d!r} gives {obs[2]!r}"]

    def nontrivial(self, case, obs):
        return len(case["data"]) >= 6

    def klass(self, case, obs):
        return "len%%3=%d" % (len(case["data"]) // 2 % 3)

    def gen(self, tier, rng):
        for n in range(0, 130):
            yield {"data": bytes(rng.randrange(256) for _ in range(n)).hex()}
        yield {"data": bytes(range(256)).hex()}
        for n in (56, 57, 58, 113, 114, 115, 170, 171, 172, 511, 512, 513, 1023, 1024):
            yield {"data": bytes(rng.randrange(256) for _ in range(n)).hex()}
            yield {"data": (bytes([rng.randrange(256)]) * n).hex()}
        for _ in range(100 if tier == "quick" else 1500):
            yield {"data": bytes(rng.randrange(256) for _ in range(rng.randint(0, 400))).hex()}


class B64DecSuite(Suite):
    """the skipping decoder against b64decode on well-formed encodings with junk (newlines, blanks, CR) inserted"""
    name = "b64dec"
    imports = ["Base64"]
    model_fn = "b64dec_model"
    shard = 400

    def run(self, case):
        return base64.b64decode(bytes.fromhex(case["text"]).decode("latin1"))

    def coq_input(self, case):
        return coq.nlist(bytes.fromhex(case["text"]))

    def klass(self, case, obs):
        return "junk"

    def gen(self, tier, rng):
        for _ in range(300 if tier == "quick" else 3000):
            d = bytes(rng.randrange(256) for _ in range(rng.randint(0, 60)))
            enc = bytearray(base64.b64encode(d))
            body = enc.rstrip(b"=")
            pad = enc[len(body):]
            out = bytearray()
            for c in body:
                if rng.random() < 0.15:
                    out += rng.choice([b"\n", b"\r\n", b" ", b"\t", b"\n\n"])
                out.append(c)
            out += pad + rng.choice([b"", b"\n", b"\r\n"])
            yield {"text": bytes(out).hex()}


# ------------------------------------------------------------------ end to end
class Hang(Exception):
    pass


def _on_alarm(sig, frm):
    raise Hang()


class FileE2E(Suite):
    name = "file-e2e"
    model_fn = None

    def run(self, case):
        d = f"/tmp/tbot-verif-c11-{os.getpid()}"
        shutil.rmtree(d, ignore_errors=True)
        os.makedirs(d)
        res = []
        old = signal.signal(signal.SIGALRM, _on_alarm)
        try:
            with sc.quiet_log():
                try:
                    with C01.RealBash() as lh:
                        with contextlib.ExitStack() as cx:
                            m = cx.enter_context(C01.RealDash(lh)) if case["ash"] else lh
                            m.ch.READ_CHUNK_SIZE = case["chunk"]
                            for i, op in enumerate(case["ops"]):
                                p = linux.Path(m, f"{d}/f{i}")
                                local = f"{d}/f{i}"
                                signal.alarm(150)
                                try:
                                    if op[0] == "bytes":
                                        data = bytes.fromhex(op[1])
                                        n = p.write_bytes(data)
                                        on_disk = open(local, "rb").read() if os.path.exists(local) else None
                                        back = p.read_bytes()
                                        res.append(["bytes", n, on_disk.hex() if on_disk is not None else None, back.hex()])
                                    else:
                                        text = op[1]
                                        n = p.write_text(text)
                                        on_disk = open(local, "rb").read() if os.path.exists(local) else None
                                        back = p.read_text()
                                        res.append(["text", n, on_disk.hex() if on_disk is not None else None, back])
                                    # the machine must be in sync afterwards
                                    res.append(["sync", m.exec0("printf", "%s", "ok")])
                                except Hang:
                                    res.append(["hang"])
                                    break
                                except tbot.error.TbotException as e:
                                    res.append(["exc", type(e).__name__])
                                    break
                                finally:
                                    signal.alarm(0)
                            signal.alarm(10)
                except Hang:
                    pass
                finally:
                    signal.alarm(0)
        finally:
            signal.signal(signal.SIGALRM, old)
            shutil.rmtree(d, ignore_errors=True)
        return res

    def oracle(self, case, obs):
        fails = []
        sh = "dash" if case["ash"] else "bash"
        it = iter(obs)
        for op in case["ops"]:
            r = next(it, None)
            what = f"[real {sh}, READ_CHUNK_SIZE={case['chunk']}] write_{op[0]}({(bytes.fromhex(op[1]) if op[0] == 'bytes' else op[1])!r:.200})"
            if r is None or r[0] in ("hang", "exc"):
                fails.append(f"{what}: {'no result' if r is None else r}")
                break
            if op[0] == "bytes":
                data = bytes.fromhex(op[1])
                if r[1] != len(data):
                    fails.append(f"{what} reported {r[1]} bytes instead of {len(data)}")
                if r[2] != data.hex():
                    fails.append(f"{what}: the remote file holds {None if r[2] is None else bytes.fromhex(r[2])!r:.200}")
                if r[3] != data.hex():
                    fails.append(f"{what}: read_bytes returns {bytes.fromhex(r[3])!r:.200}")
            else:
                text = op[1]
                if r[2] != text.encode("utf-8").hex():
                    fails.append(f"{what}: the remote file holds {None if r[2] is None else bytes.fromhex(r[2])!r:.200}")
                if r[3] != text:
                    fails.append(f"{what}: read_text returns {r[3]!r:.200}")
            s = next(it, None)
            if s != ["sync", "ok"]:
                fails.append(f"{what}: the next command returned {s!r} (machine out of sync)")
                break
        return fails

    def nontrivial(self, case, obs):
        return any((op[0] == "bytes" and len(op[1]) >= 114) or (op[0] == "text" and "\n" in op[1]) for op in case["ops"])

    def klass(self, case, obs):
        return ("dash" if case["ash"] else "bash") + ":%d" % case["chunk"]

    def finding_key(self, case, obs, failure):
        return None

    def gen(self, tier, rng):
        def rb(n):
            return bytes(rng.randrange(256) for _ in range(n)).hex()

        def line(n, alpha="abc xyz,.-ä€/\\'\"$`*!#"):
            return "".join(rng.choice(alpha) for _ in range(n))

        bytes_ops = [["bytes", rb(n)] for n in (0, 1, 2, 3, 56, 57, 58, 114, 171, 511, 512, 513, 1025, 3071, 3072, 3073, 4500, 9000)] + [["bytes", bytes(range(256)).hex()], ["bytes", (b"\x00" * 300).hex()], ["bytes", (b"\xff\n\r" * 100).hex()]]
        text_ops = [["text", t] for t in ["", "x", "one line no newline", "50%d of %s", "100%", "%%", "C:\\new\\table", "a\\nb", "tab\\there %5d", "-n", "-e x", "one line\n", "a\nb", "a\nb\n", "\n", "\n\n\n", "tail blank\n\n", "ä€𝄞\nzweite Zeile ß\n", "#!/bin/sh\nset -e\necho \"Hello $USER\"\n",
                                          "a\ntee: b", "tee: at the start\nmore\n", "x tee: y\n", line(700) + "\n" + line(600), line(1500) + "\n", "\n".join(line(rng.randint(0, 80)) for _ in range(30)) + "\n", " lead\n  trail  \n",
                                          "key = value\nother_key = ", "x\n ", "two\nlines  "]]      # several lines, the last one ends in a blank and has no newline
        ops = bytes_ops + text_ops
        extra = 10 if tier == "quick" else 120
        for _ in range(extra):
            ops.append(["bytes", rb(rng.randint(0, 700))])
            ops.append(["text", "\n".join(line(rng.randint(0, 120)) for _ in range(rng.randint(1, 12))) + rng.choice(["", "\n"])])
        rng.shuffle(ops)
        k = 0
        for i in range(0, len(ops), 3):
            yield {"ash": k % 2 == 1, "chunk": rng.choice([1, 4096, 4096]), "ops": ops[i:i + 3]}
            k += 1
        # the same families on the other shell
        for i in range(0, len(text_ops), 3):
            yield {"ash": (i // 3) % 2 == 0, "chunk": 4096, "ops": text_ops[i:i + 3]}




# ------------------------------------------------------------------ write_bytes / read_bytes over the simulated console
import re as _re                     # noqa: E402


class FileSim(C01.LinuxSim):
    """a remote with files; understands the command lines of write_bytes / read_bytes"""

    def __init__(self, fail_tee=False):
        super().__init__()
        self.files = {}
        self.mode = None              # ("tee64", path, [lines]) while `base64 -d - | tee` runs in the foreground
        self.fail_tee = fail_tee

    def react(self, line: bytes):
        echo = C01.tty_echo_ref(line + b"\r", self.echoctl)
        if self.mode is not None:
            self.mode[2].append(line)
            return echo, b"", b""
        m = _re.fullmatch(rb"base64 -d - \| tee (.+) >/dev/null", line, _re.S)
        if m:
            path = C01.sh_ref(m.group(1))[0]
            self.mode = ("tee64", path, [])
            if self.fail_tee:
                return echo, b"tee: " + path + b": Permission denied\r\n", b""
            return echo, b"", b""
        m = _re.fullmatch(rb"base64 (.+)", line, _re.S)
        if m:
            path = C01.sh_ref(m.group(1))[0]
            if path in self.files:
                enc = base64.b64encode(self.files[path])
                out = b"".join(enc[i:i + 76] + b"\r\n" for i in range(0, len(enc), 76))
                self.status = 0
            else:
                out = b"base64: " + path + b": No such file or directory\r\n"
                self.status = 1
            return echo, out, self.ps1
        out = self.execute(line).replace(b"\n", b"\r\n")
        return echo, out, self.ps1

    def eof(self):
        """^D at the start of a line: the foreground pipeline ends"""
        _, path, lines = self.mode
        self.mode = None
        if self.fail_tee:
            self.status = 1
        else:
            self.files[path] = base64.b64decode(b"".join(lines))
            self.status = 0
        return b"", b"", self.ps1


def run_pathio(case):
    ash = case["ash"]
    rng = random.Random(case["seed"])
    data = bytes.fromhex(case["data"])
    clock = sc.VirtualClock()
    sim = FileSim(fail_tee=case.get("fail_tee", False))
    io = sc.StageIO([], [], clock, initial=[[0, b"$ "]])
    io.reactor = lambda line: b"".join(C01.LinuxSim.react(sim, line))
    wres, rres = None, None
    wst, rst = [], []

    def stage_of(parts):
        echo, out, pr = parts
        d = echo + out + pr
        pieces = sc.fragment(rng, d, len(echo), pr, one_byte=(case["frag"] == "bytes"), maxpieces=(1 if case["frag"] == "whole" else 5)) if pr else \
            ([d[i:i + 1] for i in range(len(d))] if case["frag"] == "bytes" else cc.rand_split(rng, d, 1 if case["frag"] == "whole" else 4))
        return sc.timed_stage(rng, [bytes(x) for x in pieces], maxgap=case.get("maxgap", 0))

    with sc.patched_clock(clock), sc.quiet_log():
        with C01.mk_machine(io, ash)() as m:
            io.reactor = None
            base_written = len(io.written)
            io.pend = []
            path = linux.Path(m, case["path"])
            wcmd = m.escape("base64", "-d", "-", linux.Pipe, "tee", path, linux.RedirStdout(m.fsroot / "/dev/null"))
            rcmd = m.escape("base64", path)
            # the console's reactions, in the order the lines are sent
            wst.append(stage_of(sim.react(wcmd.encode())))
            tags = [wcmd.encode()]
            enc = base64.b64encode(data)
            for i in range(0, len(enc), 76):
                wst.append(stage_of(sim.react(enc[i:i + 76])))
                tags.append(enc[i:i + 76])
            wst.append(stage_of(sim.eof()))
            tags.append(b"\x04")
            wst.append(stage_of(sim.react(b"echo $?")))
            tags.append(b"echo $?")
            file_after_write = sim.files.get(case["path"].encode())
            io.stages = [{"tag": tg, "st": [[t, bytes(d)] for t, d in st]} for tg, st in zip(tags, wst)]
            io.armed = True
            try:
                wres = [0, path.write_bytes(data)]
            except tbot.error.CommandFailure:
                wres = [1]
            except linux.CommandEndedException:
                wres = [10]
            except Exception as e:  # noqa
                wres = [2, cc._exc_obs(e)]
            for ln in (rcmd.encode(), b"echo $?"):
                rst.append(stage_of(sim.react(ln)))
            io.stages = [[[t, bytes(d)] for t, d in st] for st in rst]
            io.armed = True
            try:
                rres = [0, path.read_bytes()]
            except tbot.error.CommandFailure:
                rres = [1]
            except Exception as e:  # noqa
                rres = [2, [2, sc.exc_kind(e)]]
            written = bytes(io.written[base_written:])
            unread = io.unread()
            io.pend = []
    case["_wcmd"], case["_rcmd"] = wcmd, rcmd
    case["_wst"] = [[[t, d.hex()] for t, d in st] for st in wst]
    case["_rst"] = [[[t, d.hex()] for t, d in st] for st in rst]
    return [wres, rres, written, unread, None if file_after_write is None else file_after_write.hex()]


class PathSimSuite(Suite):
    """Path.write_bytes / read_bytes over the staged console: the real methods against coq/PathIO.v"""
    name = "pathsim"
    imports = ["Channel", "ChannelCorr", "Hush", "Session", "Sh", "Base64", "Proxy", "PathIO"]
    model_fn = "pathio_model"
    shard = 60

    def run(self, case):
        return run_pathio(case)

    def coq_input(self, case):
        un = lambda sts: [[[t, bytes.fromhex(d)] for t, d in st] for st in sts]   # noqa: E731
        w = un(case["_wst"])
        return (f"({coq.boolean(case['ash'])}, {sc.codepoints(case['_wcmd'])}, {coq.nlist(bytes.fromhex(case['data']))}, "
                f"({sc.stage_coq(w[0])}, {sc.stages_coq(w[1:-2])}, {sc.stage_coq(w[-2])}, {sc.stage_coq(w[-1])}), "
                f"{sc.codepoints(case['_rcmd'])}, {sc.stages_coq(un(case['_rst']))})")

    def obs_term(self, case, obs):
        return coq.V(obs[:4])

    def oracle(self, case, obs):
        wres, rres, written, unread, filehex = obs
        data = bytes.fromhex(case["data"])
        fails = []
        if case.get("fail_tee"):
            if wres != [1]:
                fails.append(f"tee failed on the remote but write_bytes gave {wres!r} instead of CommandFailure")
            return fails
        if wres != [0, len(data)]:
            fails.append(f"write_bytes of {len(data)} bytes returned {wres!r}")
        if filehex != data.hex():
            fails.append(f"after write_bytes({data!r:.80}) the remote file holds {None if filehex is None else bytes.fromhex(filehex)!r:.80}")
        if rres != [0, data]:
            fails.append(f"read_bytes returned {rres!r:.120} for {data!r:.80}")
        if unread:
            fails.append(f"console output left unread: {unread!r:.80}")
        return fails

    def nontrivial(self, case, obs):
        return len(case["data"]) >= 114 or case["frag"] != "whole"

    def klass(self, case, obs):
        return ("ash:" if case["ash"] else "bash:") + case["frag"]

    def gen(self, tier, rng):
        sizes = [0, 1, 2, 3, 56, 57, 58, 113, 114, 115, 171, 300, 1000]
        for i, n in enumerate(sizes):
            for frag in ("whole", "random", "bytes"):
                yield {"ash": i % 2 == 0, "data": bytes(rng.randrange(256) for _ in range(n)).hex(), "path": rng.choice(["/tmp/f", "/tmp/x y/f", "/data/a'b"]),
                       "seed": rng.randrange(1 << 30), "frag": frag, "maxgap": rng.choice([0, 64])}
        yield {"ash": False, "data": bytes(range(256)).hex(), "path": "/tmp/all", "seed": 5, "frag": "random", "maxgap": 0}
        yield {"ash": True, "data": b"abc".hex(), "path": "/ro/f", "seed": 6, "frag": "random", "maxgap": 0, "fail_tee": True}
        yield {"ash": False, "data": (b"x" * 200).hex(), "path": "/ro/g", "seed": 7, "frag": "bytes", "maxgap": 0, "fail_tee": True}
        for _ in range(120 if tier == "quick" else 1500):
            yield {"ash": rng.random() < 0.5, "data": bytes(rng.randrange(256) for _ in range(rng.randint(0, 400))).hex(),
                   "path": "/tmp/r", "seed": rng.randrange(1 << 30), "frag": rng.choice(["whole", "random", "bytes"]), "maxgap": rng.choice([0, 0, 128])}


SUITES = [B64Suite(), B64DecSuite(), PathSimSuite(), FileE2E()]


def extra_obligations(tier):
    """the translated part of the model: regenerated from the current source and re-proved equal to what the theorems use"""
    from vlib import gen
    return gen.obligations(only=["gen_write_bytes_constants_are_the_model"])
