"""C12 -- Path behaves like PurePosixPath and refuses to be used on a foreign host."""
import itertools
import pathlib

import tbot
import tbot.error
from tbot.machine import connector, linux

from vlib import coq
from vlib.framework import Suite

PROP = "C12"
TRUSTED = [
    "Coq 8.16.1 kernel; vm_compute for correspondence evaluation; no native_compute",
    "environment model coq/PosixPath.v of pathlib.PurePosixPath (CPython 3.12.1: posixpath.join, splitroot, name/suffix rules, parents, with_name/with_suffix validation, relative_to without walk_up, ordering) -- validated against the real pathlib on every run",
    "model of tbot's Path (host check + delegation) in the same file; tie = correspondence with the real tbot.machine.linux.Path; independent oracle = the real pathlib.PurePosixPath driven with the same operations",
    "match() is delegated verbatim and only exercised by the oracle (fnmatch is not modelled)",
]
ASSUMPTIONS = [
    "segments are str (bytes / os.PathLike other than Path are outside the property's quantifier)",
    "machines are compared through Machine.__eq__ (clone-aware): same machine or clone = same host",
]
RULE = ("segment tuples over the edge-case alphabet ('', '.', '..', '/', '//x', '///y', 'a/', 'a.b', 'a.tar.gz', '.hidden', 'a b', '/abs', 'x.', ...) x short sequences of pure "
        "operations (join with str / same-host Path / clone's Path / foreign Path, reflected division, parent, with_name/stem/suffix, relative_to, parents[i], at_host, comparison); "
        "non-trivial = at least one operation after construction and a segment that needs normalisation or a foreign host; distinct by case hash")

SEGS = ["", ".", "..", "/", "//x", "///y", "a/", "a.b", "a.tar.gz", ".hidden", "a b", "/abs", "x.", "b", "c/d", "..a", "a/./b//c/"]
NAMES = ["n", "n.txt", "", ".", "a/b", ".x", "x.", "n.tar.gz"]
SUFFIXES = [".py", "", ".", "py", ".a/b", ".tar.gz", ".x."]


class Lab(connector.SubprocessConnector, linux.Bash):
    name = "lab"


class Other(connector.SubprocessConnector, linux.Bash):
    name = "other"


class LabAsh(connector.SubprocessConnector, linux.Ash):
    name = "lab-ash"


class OtherAsh(connector.SubprocessConnector, linux.Ash):
    name = "other-ash"


def hosts():
    h0 = Lab()
    h1 = h0.clone()          # a clone: the same host
    h2 = Other()             # a different machine
    h3 = LabAsh()            # machines with the other shell class (its own escape())
    h4 = h3.clone()
    h5 = OtherAsh()
    return [h0, h1, h2, h3, h4, h5]


HOSTID = [0, 0, 1, 2, 2, 3]  # identity of the "original" machine, as the model sees it


def s2l(s):
    return coq.nlist(ord(c) for c in s)


def arg_coq(a):
    if a[0] == "s":
        return f"(PS {s2l(a[1])})"
    return f"(PP {HOSTID[a[1]]}%nat {coq.lst(s2l, a[2], '(list N)')})"


def op_coq(o):
    k = o[0]
    if k == "join":
        return f"(PJoin {coq.lst(arg_coq, o[1], 'parg')})"
    if k == "rdiv":
        return f"(PRdiv {s2l(o[1])})"
    if k == "parent":
        return "PParent"
    if k == "with_name":
        return f"(PWithName {s2l(o[1])})"
    if k == "with_stem":
        return f"(PWithStem {s2l(o[1])})"
    if k == "with_suffix":
        return f"(PWithSuffix {s2l(o[1])})"
    if k == "relative_to":
        return f"(PRelTo {coq.lst(arg_coq, o[1], 'parg')})"
    if k == "is_relative_to":
        return f"(PIsRelTo {coq.lst(arg_coq, o[1], 'parg')})"
    if k == "parents_get":
        return f"(PParentsGet {coq.z(o[1])})"
    if k == "at_host":
        return f"(PAtHost {HOSTID[o[1]]}%nat)"
    if k == "cmp":
        return f"(PCmp {coq.lst(s2l, o[1], '(list N)')})"
    if k == "eq_host":
        return f"(PEqHost {HOSTID[o[1]]}%nat {coq.lst(s2l, o[2], '(list N)')})"
    raise ValueError(o)


def snap_t(p):
    """snapshot of a tbot Path, through tbot's own API only"""
    return [p.at_host(p.host), list(p.parts), p.name, p.suffix, list(p.suffixes), p.stem, bool(p.is_absolute()),
            len(p.parents), [q.at_host(q.host) for q in p.parents]]


def snap_pp(p):
    return [str(p), list(p.parts), p.name, p.suffix, list(p.suffixes), p.stem, bool(p.is_absolute()),
            len(p.parents), [str(q) for q in p.parents]]


def exc_code(e):
    if isinstance(e, tbot.error.WrongHostError):
        return [1]
    if isinstance(e, ValueError):
        return [2]
    if isinstance(e, IndexError):
        return [3]
    if isinstance(e, TypeError):
        return [4]
    return [98, type(e).__name__]


def mk_args(hs, args, cls):
    out = []
    for a in args:
        if a[0] == "s":
            out.append(a[1])
        elif cls is linux.Path:
            out.append(linux.Path(hs[a[1]], *a[2]))
        else:
            out.append(pathlib.PurePosixPath(*a[2]))
    return out


def run_ops(case, kind):
    """kind = 'tbot': the implementation; kind = 'pathlib': the reference (foreign hosts -> WrongHost by rule)"""
    hs = hosts()
    tb = kind == "tbot"
    out = []

    def foreign(args):
        return any(a[0] == "p" and HOSTID[a[1]] != 0 for a in args)

    try:
        if tb:
            p = linux.Path(hs[0], *mk_args(hs, case["init"], linux.Path))
        else:
            if foreign(case["init"]):
                raise tbot.error.WrongHostError(None, None)
            p = pathlib.PurePosixPath(*mk_args(hs, case["init"], None))
    except Exception as e:  # noqa
        return [exc_code(e)]
    snap = snap_t if tb else snap_pp
    out.append([0, snap(p)])
    for o in case["ops"]:
        k = o[0]
        try:
            if k in ("join", "relative_to", "is_relative_to") and not tb and foreign(o[1]):
                raise tbot.error.WrongHostError(None, None)
            if k == "join":
                args = mk_args(hs, o[1], linux.Path if tb else None)
                p = p.joinpath(*args) if len(args) != 1 else p / args[0]
                r = [0, snap(p)]
            elif k == "rdiv":
                p = o[1] / p
                r = [0, snap(p)]
            elif k == "parent":
                p = p.parent
                r = [0, snap(p)]
            elif k == "with_name":
                p = p.with_name(o[1])
                r = [0, snap(p)]
            elif k == "with_stem":
                p = p.with_stem(o[1])
                r = [0, snap(p)]
            elif k == "with_suffix":
                p = p.with_suffix(o[1])
                r = [0, snap(p)]
            elif k == "relative_to":
                args = mk_args(hs, o[1], linux.Path if tb else None)
                p = p.relative_to(*args)
                r = [0, snap(p)]
            elif k == "is_relative_to":
                args = mk_args(hs, o[1], linux.Path if tb else None)
                r = [0, bool(p.is_relative_to(*args))]
            elif k == "parents_get":
                q = p.parents[o[1]]
                r = [0, q.at_host(q.host) if tb else str(q)]
            elif k == "at_host":
                if tb:
                    r = [0, p.at_host(hs[o[1]])]
                else:
                    if HOSTID[o[1]] != 0:
                        raise tbot.error.WrongHostError(None, None)
                    r = [0, str(p)]
            elif k == "eq_host":
                if tb:
                    q = linux.Path(hs[o[1]], *o[2])
                    r = [0, [p == q, hash(p) == hash(q) or p != q]]
                else:
                    r = [0, [HOSTID[o[1]] == 0 and p == pathlib.PurePosixPath(*o[2]), True]]
            elif k == "cmp":
                q = linux.Path(hs[0], *o[1]) if tb else pathlib.PurePosixPath(*o[1])
                r = [0, [p == q, p < q, q < p]]
                if (p == q) != (hash(p) == hash(q)) and p == q:
                    r = [97, "equal paths with different hashes"]
                if (p <= q) != (p < q or p == q) or (p >= q) != (q < p or p == q) or (p > q) != (q < p):
                    r = [97, "inconsistent ordering operators"]
            else:
                raise ValueError(o)
        except Exception as e:  # noqa
            r = exc_code(e)
        out.append(r)
    return out


class PathSuite(Suite):
    name = "path"
    imports = ["PosixPath", "PathCorr"]
    model_fn = "path_model"
    shard = 400

    def coq_input(self, case):
        return f"({coq.lst(arg_coq, case['init'], 'parg')}, {coq.lst(op_coq, case['ops'], 'pop')})"

    def run(self, case):
        return run_ops(case, "tbot")

    def _rand_arg(self, rng):
        if rng.random() < 0.75:
            return ["s", rng.choice(SEGS)]
        return ["p", rng.choice([0, 1, 1, 2]), [rng.choice(SEGS) for _ in range(rng.randint(0, 2))]]

    def _rand_op(self, rng):
        x = rng.random()
        if x < 0.25:
            return ["join", [self._rand_arg(rng) for _ in range(rng.randint(0, 2))]]
        if x < 0.33:
            return ["rdiv", rng.choice(SEGS)]
        if x < 0.43:
            return ["parent"]
        if x < 0.52:
            return ["with_name", rng.choice(NAMES)]
        if x < 0.58:
            return ["with_stem", rng.choice(NAMES)]
        if x < 0.67:
            return ["with_suffix", rng.choice(SUFFIXES)]
        if x < 0.77:
            return [rng.choice(["relative_to", "is_relative_to"]), [self._rand_arg(rng) for _ in range(rng.randint(1, 2))]]
        if x < 0.87:
            return ["parents_get", rng.choice([0, 1, 2, -1, -2, 5, -7])]
        if x < 0.90:
            return ["at_host", rng.choice([0, 1, 2])]
        if x < 0.94:
            return ["eq_host", rng.choice([0, 1, 2]), [rng.choice(SEGS) for _ in range(rng.randint(0, 2))]]
        return ["cmp", [rng.choice(SEGS) for _ in range(rng.randint(0, 2))]]

    def gen(self, tier, rng):
        thorough = tier == "thorough"
        single_ops = ([["parent"], ["parents_get", 0], ["parents_get", -1], ["parents_get", 1], ["at_host", 1], ["at_host", 2]]
                      + [["with_name", x] for x in NAMES[:4]] + [["with_suffix", x] for x in SUFFIXES[:4]]
                      + [["with_stem", "s"], ["rdiv", "/x"], ["rdiv", "r"], ["cmp", ["a"]], ["cmp", ["/"]]])
        # exhaustive: segment tuples up to length 2 x every single op (+ join / relative_to with every segment)
        for n in (0, 1, 2):
            for t in itertools.product(SEGS if thorough else SEGS[:13], repeat=n):
                init = [["s", x] for x in t]
                for o in single_ops:
                    yield {"init": init, "ops": [o]}
                for x in SEGS[:13]:
                    yield {"init": init, "ops": [["join", [["s", x]]], ["parent"]]}
                    yield {"init": init, "ops": [["relative_to", [["s", x]]]]}
                    yield {"init": init, "ops": [["is_relative_to", [["s", x]]]]}
        # host combinations at every entry point
        for hidx in (0, 1, 2):
            for x in SEGS[:8]:
                yield {"init": [["s", x]], "ops": [["eq_host", hidx, [x]], ["eq_host", hidx, [x, "n"]]]}
                parg = ["p", hidx, [x]]
                yield {"init": [["s", "/base"], parg], "ops": [["parent"]]}
                yield {"init": [["s", "/base/a"]], "ops": [["join", [parg]], ["join", [["s", "t"], parg]]]}
                yield {"init": [["s", "/base/a"]], "ops": [["relative_to", [parg]], ["is_relative_to", [parg]]]}
        for _ in range(20000 if thorough else 3000):
            init = [self._rand_arg(rng) for _ in range(rng.randint(0, 3))]
            yield {"init": init, "ops": [self._rand_op(rng) for _ in range(rng.randint(1, 3))]}

    def oracle(self, case, obs):
        ref = run_ops(case, "pathlib")
        fails = []
        for i, (a, b) in enumerate(zip(obs, ref)):
            if a != b:
                what = "construction" if i == 0 else repr(case["ops"][i - 1])
                fails.append(f"{what}: tbot.Path gives {a!r}, pathlib.PurePosixPath (with the host rule) gives {b!r}")
                break
        if len(obs) != len(ref) and not fails:
            fails.append(f"different number of results {len(obs)} vs {len(ref)}")
        return fails

    def finding_key(self, case, obs, failure):
        # known finding: pathlib.with_suffix('') on a name like '..a' (stem '.') yields an UN-normalised '.' component
        # (str 'x/.'), tbot re-parses the result and drops it
        if "with_suffix" in failure and "'.'" in failure and ("/.'" in failure or "['.']" in failure):
            return "C12:with_suffix-on-name-with-stem-dot"
        return None

    def nontrivial(self, case, obs):
        segs = [a[1] for a in case["init"] if a[0] == "s"]
        return len(case["ops"]) >= 1 and (any(s in ("", ".", "/", "//x", "///y", "a/", "a/./b//c/") for s in segs)
                                          or "'p', 2" in repr(case))

    def klass(self, case, obs):
        return case["ops"][0][0] if case["ops"] else "construct"


class EscapeSuite(Suite):
    """host-taking entry points outside Path itself: escape(), redirection tokens, Background -- oracle only"""
    name = "escape"
    model_fn = None

    def gen(self, tier, rng):
        for hidx in (0, 1, 2, 3, 4, 5):
            for mach in (0, 1, 2, 3, 4, 5):
                if hidx > 2 and mach > 2 and (hidx, mach) not in ((3, 3), (3, 4), (4, 3), (5, 3), (3, 5)):
                    continue
                for x in ["/tmp/a b", "rel/x", "/", "//x/y", "/a'b"]:
                    for kind in ("escape", "RedirStdout", "RedirStderr", "RedirBoth", "AppendStdout", "AppendStderr", "AppendBoth",
                                 "RedirStdin", "Background-out", "Background-err"):
                        yield {"path_host": hidx, "mach": mach, "seg": x, "kind": kind}
                    # Background with BOTH streams: the second path (same or different spelling) lives on host `hidx`,
                    # the first one on the machine itself
                    for seg2 in (x, x + "2"):
                        yield {"path_host": hidx, "mach": mach, "seg": x, "seg2": seg2, "kind": "Background-both-stderr-other"}
                        yield {"path_host": hidx, "mach": mach, "seg": x, "seg2": seg2, "kind": "Background-both-stdout-other"}

    def run(self, case):
        import shlex
        hs = hosts()
        p = linux.Path(hs[case["path_host"]], case["seg"])
        m = hs[case["mach"]]
        k = case["kind"]
        try:
            if k == "escape":
                r = [0, m.escape(p)]
            elif k == "Background-both-stderr-other":
                tok = linux.Background(stdout=linux.Path(m, case["seg"]), stderr=linux.Path(hs[case["path_host"]], case["seg2"]))
                r = [0, m.escape(tok)]
            elif k == "Background-both-stdout-other":
                tok = linux.Background(stdout=linux.Path(hs[case["path_host"]], case["seg2"]), stderr=linux.Path(m, case["seg"]))
                r = [0, m.escape(tok)]
            elif k.startswith("Background"):
                tok = linux.Background(stdout=p) if k.endswith("out") else linux.Background(stderr=p)
                r = [0, m.escape(tok)]
            else:
                tok = getattr(linux, k)(p)
                r = [0, m.escape(tok)]
        except Exception as e:  # noqa
            r = exc_code(e)
        return r

    def oracle(self, case, obs):
        import shlex
        same = HOSTID[case["path_host"]] == HOSTID[case["mach"]]
        if not same:
            return [] if obs == [1] else [f"{case['kind']} with a path of a foreign host returned {obs!r} instead of raising WrongHostError"]
        if obs[0] != 0:
            return [f"{case['kind']} with a path of the same host (or its clone) failed: {obs!r}"]
        q = shlex.quote(str(pathlib.PurePosixPath(case["seg"])))
        if q not in obs[1]:
            return [f"{case['kind']} produced {obs[1]!r} which does not contain the quoted path {q!r}"]
        return []

    def nontrivial(self, case, obs):
        return case["path_host"] != case["mach"]

    def klass(self, case, obs):
        return case["kind"]


class PathlibSuite(Suite):
    """validates the environment model itself: Coq PosixPath against the real pathlib (no tbot involved)"""
    name = "pathlib_model"
    imports = ["PosixPath", "PathCorr"]
    model_fn = "path_model"
    shard = 400

    def coq_input(self, case):
        return f"({coq.lst(arg_coq, case['init'], 'parg')}, {coq.lst(op_coq, case['ops'], 'pop')})"

    def run(self, case):
        return run_ops(case, "pathlib")

    def gen(self, tier, rng):
        ps = PathSuite()
        for _ in range(8000 if tier == "thorough" else 1500):
            init = [["s", rng.choice(SEGS)] for _ in range(rng.randint(0, 3))]
            ops = [o for o in (ps._rand_op(rng) for _ in range(rng.randint(1, 3)))]
            if any(o[0] == "with_suffix" for o in ops) and "..a" in repr(init) + repr(ops):
                continue    # the CPython corner recorded as known finding (path_model follows tbot's re-normalisation there)
            yield {"init": init, "ops": ops}

    def klass(self, case, obs):
        return "env"


SUITES = [PathSuite(), EscapeSuite(), PathlibSuite()]
