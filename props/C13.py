"""C13 -- machine contexts init once, unwind fully on any failure, and always power off."""
import contextlib
import io
import itertools

import tbot
from tbot.machine import machine, shell, connector, board, channel

from vlib import coq
from vlib.framework import Suite

PROP = "C13"
TRUSTED = [
    "Coq 8.16.1 kernel; vm_compute for correspondence evaluation; no native_compute",
    "model coq/Machine.v (Machine.__enter__/__exit__, ExitStack unwinding, PowerControl._init_machine, ConsoleConnector._connect) hand-written from machine.py / board.py / connector/common.py; tie = correspondence on dynamically composed instrumented machine classes",
    "contextlib.ExitStack / generator context-manager semantics of CPython (modelled: LIFO callbacks, a raising callback replaces the exception in flight, nothing suppresses)",
]
ASSUMPTIONS = [
    "init steps are context managers that do not suppress exceptions",
    "the fault oracle is a list of booleans consumed one per check point; every fault pattern (any number of faults at setup, body or teardown points) is such a list",
]
RULE = ("machine class compositions (subsets/orders of pre-connect, initialiser incl. PowerControl, post-shell mixins; plain or console connector) x test programs "
        "(nested / sequential / caught `with m:` blocks) x fault patterns: no fault, every single check point, every pair, random sets; "
        "non-trivial = at least one fault fires or the program nests / re-enters the machine; distinct by case hash")


class Fault(Exception):
    def __init__(self, ident):
        super().__init__(f"fault {ident}")
        self.ident = ident


class Oracle:
    def __init__(self, bits):
        self.bits = list(bits)
        self.n = 0
        self.log = []
        self.fired = []

    def check(self):
        ident = self.n
        self.n += 1
        b = self.bits.pop(0) if self.bits else False
        if b:
            self.fired.append(ident)
            raise Fault(ident)


O = None


@contextlib.contextmanager
def plain(k):
    O.log.append([1, k])
    O.check()
    O.log.append([2, k])
    try:
        yield None
    finally:
        O.log.append([3, k])
        O.check()


def mk_pre(k):
    class Pre(machine.PreConnectInitializer):
        def _init_pre_connect(self):
            return plain(k)
    Pre.__name__ = f"Pre{k}"
    return Pre


def mk_init(k):
    class Init(machine.Initializer):
        def _init_machine(self):
            return plain(k)
    Init.__name__ = f"Init{k}"
    return Init


def mk_post(k):
    class Post(machine.PostShellInitializer):
        def _init_post_shell(self):
            return plain(k)
    Post.__name__ = f"Post{k}"
    return Post


class TPower(board.PowerControl):
    name = "verif-board"

    def power_check(self):
        O.log.append([4])
        O.check()
        return True

    def poweron(self):
        O.log.append([5])
        O.check()

    def poweroff(self):
        O.log.append([6])
        O.check()


def mk_conn(k):
    class Conn(connector.Connector):
        @contextlib.contextmanager
        def _connect(self):
            with plain(k):
                yield channel.NullChannel()

        def clone(self):
            raise NotImplementedError()
    return Conn


class FakeHost:
    def __init__(self, k1):
        self.k1 = k1

    def clone(self):
        return plain(self.k1)


def mk_console(k2):
    class Console(connector.ConsoleConnector):
        @contextlib.contextmanager
        def connect(self, mach):
            with plain(k2):
                yield channel.NullChannel()
    return Console


def mk_shell(k):
    class Sh(shell.RawShell):
        def _init_shell(self):
            return plain(k)
    return Sh


def build(comp):
    """comp: {"bases": [["pre",k]|["init",k]|["power"]|["post",k]|["conn",k]|["console",k1,k2]|["shell",k] ...]}"""
    bases = []
    host = None
    for b in comp["bases"]:
        if b[0] == "pre":
            bases.append(mk_pre(b[1]))
        elif b[0] == "init":
            bases.append(mk_init(b[1]))
        elif b[0] == "power":
            bases.append(TPower)
        elif b[0] == "post":
            bases.append(mk_post(b[1]))
        elif b[0] == "conn":
            bases.append(mk_conn(b[1]))
        elif b[0] == "console":
            bases.append(mk_console(b[2]))
            host = FakeHost(b[1])
        elif b[0] == "shell":
            bases.append(mk_shell(b[1]))

    def init(self):
        O.log.append([7])
        O.check()

    cls = type("M", tuple(bases), {"name": "verif-machine", "init": init})
    return cls(host) if host is not None else cls()


def flat_steps(comp):
    """the documented order: pre-connect steps, the connection, initialisers in class order, the shell, post-shell steps"""
    bs = comp["bases"]
    out = [b for b in bs if b[0] == "pre"]
    out += [b for b in bs if b[0] in ("conn", "console")]
    out += [b for b in bs if b[0] in ("init", "power")]
    out += [b for b in bs if b[0] == "shell"]
    out += [b for b in bs if b[0] == "post"]
    return out


def step_coq(b):
    if b[0] == "power":
        return "SPower"
    if b[0] == "console":
        return f"(SConsole {b[1]}%nat {b[2]}%nat)"
    return f"(SPlain {b[1]}%nat)"


def prog_coq(p):
    k = p[0]
    if k == "skip":
        return "PSkip"
    if k == "body":
        return f"(PBody {p[1]}%nat)"
    if k == "seq":
        return f"(PSeq {prog_coq(p[1])} {prog_coq(p[2])})"
    if k == "with":
        return f"(PWith {prog_coq(p[1])})"
    if k == "try":
        return f"(PTry {prog_coq(p[1])})"
    raise ValueError(p)


def run_prog(p, m):
    k = p[0]
    if k == "skip":
        return
    if k == "body":
        O.log.append([8, p[1]])
        O.check()
    elif k == "seq":
        run_prog(p[1], m)
        run_prog(p[2], m)
    elif k == "with":
        with m:
            run_prog(p[1], m)
    elif k == "try":
        try:
            run_prog(p[1], m)
        except Exception:
            pass


# ---------------------------------------------------------------- reference semantics (from the property text)
class RefFault(Exception):
    pass


class Ref:
    """Independent re-statement of what the property demands: init once in the documented order, teardown by
    the last exit in exactly the reverse order, every started step torn down exactly once on any failure,
    power-off iff power-on was attempted, errors propagate."""

    def __init__(self, steps, bits):
        self.steps = steps
        self.bits = list(bits)
        self.log = []
        self.depth = 0
        self.stack = []

    def chk(self):
        b = self.bits.pop(0) if self.bits else False
        if b:
            raise RefFault()

    def _exit_one(self, st, pend):
        seq = {"power": [[6]], "console": [[3, st[2]], [3, st[1]]] if st[0] == "console" else None}.get(st[0]) or [[3, st[1]]]
        for e in seq:
            self.log.append(e)
            try:
                self.chk()
            except RefFault:
                pend = True
        return pend

    def teardown(self, pend):
        while self.stack:
            pend = self._exit_one(self.stack.pop(), pend)
        return pend

    def enter(self):
        self.depth += 1
        if self.depth > 1:
            return
        try:
            for st in self.steps:
                if st[0] == "power":
                    self.log.append([4]); self.chk()
                    self.log.append([5])
                    try:
                        self.chk()
                    except RefFault:
                        self.log.append([6])
                        self.chk()
                        raise
                elif st[0] == "console":
                    self.log.append([1, st[1]]); self.chk(); self.log.append([2, st[1]])
                    try:
                        self.log.append([1, st[2]]); self.chk(); self.log.append([2, st[2]])
                    except RefFault:
                        self.log.append([3, st[1]])
                        self.chk()
                        raise
                else:
                    self.log.append([1, st[1]]); self.chk(); self.log.append([2, st[1]])
                self.stack.append(st)
            self.log.append([7]); self.chk()
        except RefFault:
            self.depth -= 1
            self.teardown(True)
            raise

    def leave(self, pend):
        self.depth -= 1
        if self.depth == 0:
            pend = self.teardown(pend)
        return pend

    def run(self, p):
        k = p[0]
        if k == "body":
            self.log.append([8, p[1]]); self.chk()
        elif k == "seq":
            self.run(p[1]); self.run(p[2])
        elif k == "with":
            self.enter()
            try:
                self.run(p[1])
            except RefFault:
                self.leave(True)
                raise
            if self.leave(False):
                raise RefFault()
        elif k == "try":
            try:
                self.run(p[1])
            except RefFault:
                pass


def count_checks(comp, prog, bits=()):
    r = Ref(flat_steps(comp), [])
    r.run(prog)
    n = 0
    # number of check points on the fault-free run = number of events that are followed by a check
    return sum(1 for e in r.log if e[0] in (1, 3, 4, 5, 6, 7, 8))


class MachineSuite(Suite):
    name = "machine"
    imports = ["Machine"]
    model_fn = "machine_model"
    shard = 400

    def coq_input(self, case):
        steps = coq.lst(step_coq, flat_steps(case["comp"]), "step")
        bits = coq.lst(coq.boolean, case["faults"], "bool")
        return f"({steps}, {prog_coq(case['prog'])}, {bits})"

    def run(self, case):
        global O
        O = Oracle(case["faults"])
        m = build(case["comp"])
        outcome = []
        with contextlib.redirect_stdout(io.StringIO()):
            try:
                run_prog(case["prog"], m)
            except Fault as f:
                outcome = [f.ident]
        return [O.log, outcome, getattr(m, "_rc", 0)]

    def gen(self, tier, rng):
        thorough = tier == "thorough"
        comps = []
        mix = [["pre", 1], ["pre", 2], ["init", 3], ["power"], ["init", 4], ["post", 5]]
        for conn in (["conn", 10], ["console", 11, 12]):
            for r in range(0, len(mix) + 1):
                for sub in itertools.combinations(mix, r):
                    if len(sub) > (5 if thorough else 4):
                        continue
                    comps.append({"bases": list(sub[:1]) + [conn] + list(sub[1:]) + [["shell", 20]]})
        # orders: permute the bases of some compositions (kinds interleaved)
        for _ in range(60 if thorough else 20):
            c = rng.choice(comps)
            bs = list(c["bases"])
            rng.shuffle(bs)
            comps.append({"bases": bs})
        progs = [
            ["with", ["body", 0]],
            ["with", ["with", ["body", 0]]],
            ["seq", ["with", ["body", 0]], ["with", ["body", 1]]],
            ["seq", ["try", ["with", ["body", 0]]], ["with", ["seq", ["with", ["body", 1]], ["body", 2]]]],
            ["with", ["seq", ["try", ["with", ["body", 0]]], ["body", 1]]],
            ["seq", ["try", ["with", ["with", ["with", ["body", 0]]]]], ["try", ["with", ["body", 1]]]],
        ]
        for comp in comps:
            for prog in (progs if thorough else progs[:4] + [rng.choice(progs[4:])]):
                n = count_checks(comp, prog)
                yield {"comp": comp, "prog": prog, "faults": []}
                # every single fault point (positions beyond n also cover re-init paths)
                for i in range(n + 3):
                    yield {"comp": comp, "prog": prog, "faults": [False] * i + [True]}
                # pairs
                pairs = list(itertools.combinations(range(n + 2), 2))
                if not thorough and len(pairs) > 12:
                    pairs = rng.sample(pairs, 12)
                elif thorough and len(pairs) > 80:
                    pairs = rng.sample(pairs, 80)
                for i, j in pairs:
                    bits = [False] * (j + 1)
                    bits[i] = bits[j] = True
                    yield {"comp": comp, "prog": prog, "faults": bits}
                for _ in range(6 if thorough else 2):
                    yield {"comp": comp, "prog": prog, "faults": [rng.random() < 0.25 for _ in range(n + 4)]}

    def oracle(self, case, obs):
        fails = []
        log, outcome, rc = obs
        ref = Ref(flat_steps(case["comp"]), case["faults"])
        raised = False
        try:
            ref.run(case["prog"])
        except RefFault:
            raised = True
        if log != ref.log:
            # find the first difference and describe it in the property's terms
            i = next((i for i, (a, b) in enumerate(zip(log, ref.log)) if a != b), min(len(log), len(ref.log)))
            fails.append(f"event trace deviates from the documented lifecycle at event {i}: got {log[i:i+4]!r}, "
                         f"the property demands {ref.log[i:i+4]!r} (init once in class order, every started step torn down "
                         f"exactly once in reverse order, power-off iff power-on was attempted)")
        if raised != bool(outcome):
            fails.append(f"error propagation: caller saw {'an exception' if outcome else 'no exception'}, "
                         f"the property demands {'an exception' if raised else 'none'}")
        if rc != 0:
            fails.append(f"re-entrancy counter is {rc} after all contexts were left")
        return fails

    def nontrivial(self, case, obs):
        return any(case["faults"]) or case["prog"] != ["with", ["body", 0]]

    def klass(self, case, obs):
        nf = sum(1 for b in case["faults"] if b)
        conn = "console" if any(b[0] == "console" for b in case["comp"]["bases"]) else "plain"
        return f"{conn}/faults={min(nf, 3)}"


class SuppressSuite(Suite):
    """A composition with a step whose OWN teardown swallows an exception (`try: yield / except E: pass`): the machine
    context as a whole never swallows -- an error raised by the body, by a later init step or by the init() hook still
    reaches the caller of `with m:`, everything started is torn down in reverse order, and the body never runs on a
    machine whose initialisation failed.  Outside the Coq model (whose steps do not suppress): oracle only."""
    name = "suppress"
    model_fn = None

    def gen(self, tier, rng):
        for where in ("pre", "connect", "init", "post"):
            for fault in ("body", "hook", "later-init", "none"):
                for nested in (False, True):
                    yield {"where": where, "fault": fault, "nested": nested}

    def run(self, case):
        log = []

        class Boom(Exception):
            pass

        @contextlib.contextmanager
        def swallowing(tag):
            log.append(tag + "+")
            try:
                yield None
            except Boom:
                pass
            finally:
                log.append(tag + "-")

        @contextlib.contextmanager
        def plain_step(tag, raise_at_setup=False):
            if raise_at_setup:
                raise Boom(tag)
            log.append(tag + "+")
            try:
                yield None
            finally:
                log.append(tag + "-")

        class Conn(connector.Connector):
            @contextlib.contextmanager
            def _connect(self):
                cm = swallowing("connect") if case["where"] == "connect" else plain_step("connect")
                with cm:
                    with channel.NullChannel() as ch:
                        yield ch

            def clone(self):
                raise NotImplementedError()

        class Pre(machine.PreConnectInitializer):
            def _init_pre_connect(self):
                return swallowing("pre") if case["where"] == "pre" else plain_step("pre")

        class Init(machine.Initializer):
            def _init_machine(self):
                return swallowing("init") if case["where"] == "init" else plain_step("init")

        class Late(machine.Initializer):
            def _init_machine(self):
                return plain_step("late", raise_at_setup=(case["fault"] == "later-init"))

        class Post(machine.PostShellInitializer):
            def _init_post_shell(self):
                return swallowing("post") if case["where"] == "post" else plain_step("post")

        class M(Conn, Pre, Init, Late, Post, shell.RawShell):
            name = "verif-suppress"

            def init(self):
                log.append("hook")
                if case["fault"] == "hook":
                    raise Boom("hook")

        m = M()
        outcome = "returned"
        with contextlib.redirect_stdout(io.StringIO()):
            try:
                with m:
                    log.append("body")
                    if case["nested"]:
                        with m:
                            log.append("nested")
                    if case["fault"] == "body":
                        raise Boom("body")
            except Boom as e:
                outcome = "raised:" + str(e)
        return [outcome, log, getattr(m, "_rc", None)]

    def oracle(self, case, obs):
        outcome, log, rc = obs
        fails = []
        want = {"body": "raised:body", "hook": "raised:hook", "later-init": "raised:late", "none": "returned"}[case["fault"]]
        if outcome != want:
            fails.append(f"`with m:` {outcome} although {case['fault']!r} failed: the error must propagate (want {want}); log {log}")
        if case["fault"] in ("hook", "later-init") and "body" in log:
            fails.append(f"the body ran although the initialisation failed: {log}")
        opened = [x[:-1] for x in log if x.endswith("+")]
        closed = [x[:-1] for x in log if x.endswith("-")]
        if closed != opened[::-1]:
            fails.append(f"steps entered {opened} but torn down {closed} (must be the reverse order, each once)")
        if rc != 0:
            fails.append(f"re-entrancy counter is {rc} after the context was left")
        return fails

    def nontrivial(self, case, obs):
        return case["fault"] != "none"

    def klass(self, case, obs):
        return case["where"] + "/" + case["fault"]

    def finding_key(self, case, obs, failure):
        return None


class InheritSuite(Suite):
    """histories over a class hierarchy: a machine of class A is used first, then a machine of a class derived from A
    that adds an initializer (e.g. `class B(board.PowerControl, A)`): every machine runs the initializers of ITS class,
    each once, in class order -- whatever was entered before.  Oracle only."""
    name = "inherit"
    model_fn = None

    def gen(self, tier, rng):
        for order in (["A", "B"], ["B", "A"], ["A", "B", "A"], ["A", "A", "B", "C"], ["C", "A", "B"], ["B", "C", "B"]):
            yield {"order": order}

    def run(self, case):
        log = []

        def step(tag):
            @contextlib.contextmanager
            def cm(self):
                log.append(tag + "+")
                try:
                    yield None
                finally:
                    log.append(tag + "-")
            return cm

        class Conn(connector.Connector):
            @contextlib.contextmanager
            def _connect(self):
                with channel.NullChannel() as ch:
                    yield ch

            def clone(self):
                raise NotImplementedError()

        class Wait(machine.Initializer):
            _init_machine = step("wait")

        class Power(machine.Initializer):
            _init_machine = step("power")

        class Pre(machine.PreConnectInitializer):
            _init_pre_connect = step("pre")

        class Post(machine.PostShellInitializer):
            _init_post_shell = step("post")

        class A(Conn, Wait, shell.RawShell):
            name = "A"

        class B(Power, Pre, A):
            name = "B"

        class C(Post, B):
            name = "C"

        out = []
        with contextlib.redirect_stdout(io.StringIO()):
            for k in case["order"]:
                del log[:]
                with {"A": A, "B": B, "C": C}[k]():
                    log.append("body")
                out.append([k, list(log)])
        return out

    def oracle(self, case, obs):
        want = {"A": ["wait+", "body", "wait-"],
                "B": ["pre+", "power+", "wait+", "body", "wait-", "power-", "pre-"],
                "C": ["pre+", "power+", "wait+", "post+", "body", "post-", "wait-", "power-", "pre-"]}
        fails = []
        for n, (k, log) in enumerate(obs):
            if log != want[k]:
                fails.append(f"machine #{n} of class {k} (after {[x for x, _ in obs[:n]]}) ran {log}; its class composition asks for {want[k]}")
        return fails

    def nontrivial(self, case, obs):
        return len(set(case["order"])) > 1

    def klass(self, case, obs):
        return "-".join(case["order"])

    def finding_key(self, case, obs, failure):
        return None


SUITES = [MachineSuite(), SuppressSuite(), InheritSuite()]
