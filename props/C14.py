"""C14 -- the context never has two live instances of a machine and never leaks one."""
from props import ctx_common as cx

PROP = "C14"
TRUSTED = [
    "Coq 8.16.1 kernel; vm_compute for correspondence evaluation; no native_compute",
    "model coq/Context.v (InstanceManager, Context.request/reconfigure/teardown_if_alive/__enter__/__exit__, the from_context chains of board.py/linux.py/connector/common.py) hand-written; tie = correspondence with a real tbot.Context over instrumented dummy machine classes that use tbot's own from_context implementations",
    "the machine lifecycle below the context (Machine.__enter__/__exit__) is C13's model; here a machine is one init and one teardown check point",
]
ASSUMPTIONS = [
    "machine classes form a chain-like dependency table: every from_context requests at most one prerequisite role",
    "fault oracle = list of booleans consumed one per machine initialisation / teardown",
]
RULE = ("request programs (nested/sequential requests with reset/exclusive/reset_on_error flags, reconfigure blocks, teardown_if_alive, raising and skipping bodies, "
        "caught exceptions, nested `with ctx`) over a 5-class dependency table x keep_alive x reset_on_error default x fault patterns (none, every single "
        "check point, random); non-trivial = at least two requests and (a fault fired or a flag is set); distinct by case hash")


def count_requests(p):
    if p[0] in ("request", "hrequest"):
        return 1 + count_requests(p[5])
    if p[0] == "seq":
        return count_requests(p[1]) + count_requests(p[2])
    if p[0] in ("try", "ctx"):
        return count_requests(p[1])
    if p[0] == "reconf":
        return count_requests(p[3])
    return 0


def has_ka_reconf(p):
    if p[0] == "reconf":
        return p[1] is True or has_ka_reconf(p[3])
    if p[0] in ("request", "hrequest"):
        return has_ka_reconf(p[5])
    if p[0] == "seq":
        return has_ka_reconf(p[1]) or has_ka_reconf(p[2])
    if p[0] in ("try", "ctx"):
        return has_ka_reconf(p[1])
    return False


class LifeSuite(cx.CtxSuiteBase):
    name = "life"

    def gen(self, tier, rng):
        thorough = tier == "thorough"
        fixed = [
            ["request", 3, False, False, None, ["body", 0]],
            ["request", 1, False, False, None, ["request", 4, False, False, None, ["raise", False]]],
            ["seq", ["request", 2, False, False, None, ["skip"]], ["request", 3, True, False, None, ["skip"]]],
            ["request", 0, False, False, None, ["request", 1, False, False, True, ["raise", False]]],
            ["request", 1, False, True, None, ["try", ["request", 1, False, False, None, ["skip"]]]],
            ["reconf", True, None, ["seq", ["request", 3, False, False, None, ["skip"]], ["request", 1, False, False, None, ["skip"]]]],
            ["seq", ["request", 3, False, False, None, ["skip"]], ["tia", 1]],
        ]
        progs = list(fixed)
        # an exclusive holder, a refused request inside it (caught), then a fresh request afterwards
        for c in (0, 1, 2, 4):
            for c2 in (c, 3 if c == 2 else c):
                for excl2 in (False, True):
                    progs.append(["seq", ["request", c, False, True, None, ["try", ["request", c2, False, excl2, None, ["body", 1]]]],
                                  ["request", c, False, False, None, ["body", 2]]])
                    progs.append(["seq", ["request", c, False, True, None,
                                          ["seq", ["try", ["request", c2, False, excl2, None, ["skip"]]],
                                           ["try", ["request", c2, False, excl2, None, ["skip"]]]]],
                                  ["seq", ["request", c, False, False, None, ["skip"]], ["request", c, False, False, None, ["skip"]]]])
        for _ in range(2500 if thorough else 450):
            progs.append(cx.rand_prog(rng, rng.choice([2, 3, 3, 4])))
        for p in progs:
            for ka in (False, True):
                for roe in ((False, True) if thorough or rng.random() < 0.4 else (rng.random() < 0.5,)):
                    top = ["ctx", p]
                    yield {"prog": top, "ka": ka, "roe": roe, "faults": []}
                    nf = 10 if thorough else 6
                    for i in range(nf):
                        yield {"prog": top, "ka": ka, "roe": roe, "faults": [False] * i + [True]}
                    yield {"prog": top, "ka": ka, "roe": roe, "faults": [rng.random() < 0.3 for _ in range(12)]}
                    # the initialisation fault fires in the machine's init() hook (the last step of Machine.__enter__)
                    for i in range(nf):
                        if rng.random() < 0.5:
                            yield {"prog": top, "ka": ka, "roe": roe, "faults": [False] * i + [True], "hook": rng.choice([31, 31, rng.randint(1, 30)])}
                    yield {"prog": top, "ka": ka, "roe": roe, "faults": [rng.random() < 0.3 for _ in range(12)], "hook": rng.randint(1, 31)}
                    # faults raised as BaseException (not Exception) subclasses: nothing may be left alive either
                    if rng.random() < 0.5:
                        yield {"prog": top, "ka": ka, "roe": roe, "faults": [False] * rng.randint(0, nf) + [True], "base_exc": True}
                        yield {"prog": top, "ka": True, "roe": roe, "faults": [rng.random() < 0.3 for _ in range(12)], "base_exc": True}
                    # the same program through the handle API (`with ctx() as cx: cx.request(...)`)
                    if rng.random() < 0.3:
                        yield {"prog": cx.to_handle_api(top, rng), "ka": ka, "roe": roe, "faults": [rng.random() < 0.15 for _ in range(10)]}
                    if not ka:
                        yield {"prog": p, "ka": ka, "roe": roe, "faults": [rng.random() < 0.2 for _ in range(8)]}
                    # the same Context object entered twice in a row, the first exit possibly faulting (caught): nothing
                    # may survive the second outermost exit either
                    if rng.random() < 0.35:
                        two = ["seq", ["try", ["ctx", p]], ["ctx", rng.choice(progs)]]
                        yield {"prog": two, "ka": ka, "roe": roe, "faults": [rng.random() < 0.35 for _ in range(14)], "multi_ctx": True}
                        yield {"prog": two, "ka": True, "roe": roe, "faults": [False] * rng.randint(1, 5) + [True], "multi_ctx": True}

    def oracle(self, case, obs):
        fails = []
        log, outcome, alive_end = obs
        live = {}            # class -> instance id
        inits = {}
        downs = {}
        built_from = {}      # (class, inst) -> (dep class, dep inst) alive at init time
        active = {}          # class -> number of active top-level requests (entered, not yet left)
        ka_possible = case["ka"] or has_ka_reconf(case["prog"])
        for idx, e in enumerate(log):
            if e[0] == 1:
                c, i = e[1], e[2]
                if c in live:
                    fails.append(f"two live instances of class {c}: {live[c]} and {i} (event {idx})")
                live[c] = i
                inits[(c, i)] = inits.get((c, i), 0) + 1
                d = cx.TABLE[c]
                if d is not None and d[0] in live:
                    built_from[(c, i)] = (d[0], live[d[0]])
            elif e[0] == 2:
                c, i = e[1], e[2]
                downs[(c, i)] = downs.get((c, i), 0) + 1
                if live.get(c) != i:
                    fails.append(f"teardown of class {c} instance {i} which is not the live instance (event {idx})")
                else:
                    del live[c]
            elif e[0] == 3:
                c, i = e[1], e[2]
                if live.get(c) != i:
                    fails.append(f"request handed out class {c} instance {i} which is not initialised at that moment (event {idx})")
                active[c] = active.get(c, 0) + 1
            elif e[0] == 5:
                c = e[1]
                active[c] = active.get(c, 0) - 1
                if not ka_possible and active[c] == 0 and c in live:
                    # nobody holds it any more?  a dependant built from it may still do
                    # a live dependant's from_context still holds a request for this machine (class)
                    holders = [k for k in live if cx.TABLE[k] is not None and cx.TABLE[k][0] == c]
                    if not holders:
                        fails.append(f"without keep-alive class {c} instance {live[c]} is still alive after its last request left (event {idx})")
        for e in log:
            if e[0] == 97:
                fails.append(f"class {e[1]}: {e[2]} low-level resource(s) acquired during machine initialisation are still held at the end although "
                             f"{'no' if e[1] not in live else 'one'} instance of the class is alive (a failed initialisation was not unwound)")
        for k, n in inits.items():
            if downs.get(k, 0) != 1:
                fails.append(f"class {k[0]} instance {k[1]} was initialised but torn down {downs.get(k, 0)} times")
        if case["prog"][0] == "ctx" or case.get("multi_ctx"):
            if live or any(alive_end):
                fails.append(f"alive after the outermost context was left: live by trace {live}, managers alive {alive_end}")
        # at the outermost exit dependants are torn down before the machines they were built from:
        # in the whole trace a machine must never be torn down while a dependant built from it is still alive
        # at the moment of the context exit -- checked on the trailing block of teardown events
        last_exit = max((i for i, e in enumerate(log) if e[0] == 6), default=None)
        tail = [e for e in log[last_exit + 1:] if e[0] == 2] if last_exit is not None and case["prog"][0] == "ctx" else []
        pos = {(e[1], e[2]): n for n, e in enumerate(tail)}
        for k, v in built_from.items():
            if k in pos and v in pos and pos[k] > pos[v]:
                fails.append(f"at the final teardown class {v[0]} was torn down before class {k[0]} which was built from it")
        return fails

    def nontrivial(self, case, obs):
        return count_requests(case["prog"]) >= 2 and (any(case["faults"]) or "True" in repr(case["prog"]))

    def klass(self, case, obs):
        return f"ka={int(case['ka'])}/faults={min(sum(case['faults']), 2)}/{'raise' if obs[1] else 'ok'}"


def _roe_possible(case):
    return case["roe"] or "True" in repr([x for x in _flatten(case["prog"])])


def _flatten(p):
    yield p[0]
    for x in p[1:]:
        if isinstance(x, list) and x and isinstance(x[0], str):
            yield from _flatten(x)
        else:
            yield x


def _finding_key(self, case, obs, failure):
    # D14 (recorded, not repaired): with reset_on_error in effect an exception raised by a machine's own
    # init/teardown travels through the request its from_context holds on the prerequisite, which is then
    # reset although another machine built from it is alive -> at the final exit the prerequisite goes first
    if failure.startswith("at the final teardown") and any(case["faults"]) and _roe_possible(case):
        return "C14:machine-fault-resets-shared-prerequisite-under-reset_on_error"
    return None


LifeSuite.finding_key = _finding_key

SUITES = [LifeSuite()]
