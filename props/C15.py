"""C15 -- context requests: sharing, exclusive, reset and reset_on_error act as documented."""
from props import ctx_common as cx
from props.C14 import count_requests

PROP = "C15"
TRUSTED = [
    "Coq 8.16.1 kernel; vm_compute for correspondence evaluation; no native_compute",
    "reference model coq/ContextSpec.v written from the documentation (rules D1-D10, undocumented corners U1-U3 tagged); implementation model coq/Context.v; tie = the real tbot.Context is compared with BOTH on every generated program",
    "the refinement impl-model = reference-model is checked by evaluation on the generated programs, not proved (see DESIGN.md C15); the named clauses are proved on the implementation model",
]
ASSUMPTIONS = [
    "no machine initialisation / teardown faults (C15 quantifies over bodies that complete, raise, or raise a skip)",
    "chain-like dependency table (lab-host <- board <- u-boot <- linux, plus a second board built from the lab-host)",
]
RULE = ("request programs up to depth 4 over five interdependent roles x all flag combinations per request x keep_alive x reset_on_error default x reconfigure "
        "blocks x teardown_if_alive x completing / raising / skipping bodies (no machine faults); non-trivial = at least two requests and one flag set or a raising body; "
        "distinct by case hash")


class _Base(cx.CtxSuiteBase):
    def gen(self, tier, rng):
        thorough = tier == "thorough"
        progs = []
        # exhaustive: two nested / sequential requests over classes {0,1,2} with all flag combinations
        flagsets = [(r, e, q) for r in (False, True) for e in (False, True) for q in (None, True, False)]
        classes = (0, 1, 2)
        for c1 in classes:
            for c2 in classes:
                for f1 in (flagsets if thorough else flagsets[::2]):
                    for f2 in (flagsets if thorough else flagsets[1::3]):
                        for body in (["skip"], ["raise", False], ["raise", True]):
                            inner = ["request", c2, f2[0], f2[1], f2[2], body]
                            progs.append(["request", c1, f1[0], f1[1], f1[2], ["try", inner] if body != ["skip"] and (c1 + c2) % 2 else inner])
                            progs.append(["seq", ["try", ["request", c1, f1[0], f1[1], f1[2], body]], inner])
        for _ in range(6000 if thorough else 1200):
            progs.append(cx.rand_prog(rng, rng.choice([2, 3, 3, 4])))
        for i, p in enumerate(progs):
            for ka in (False, True):
                roes = (False, True) if thorough or i % 3 == 0 else ((i // 3) % 2 == 0,)
                for roe in roes:
                    yield {"prog": ["ctx", p], "ka": ka, "roe": roe, "faults": []}
                    if i % 5 == 0:
                        # the same requests made through the handle API (`with ctx() as cx: cx.request(...)`)
                        yield {"prog": ["ctx", cx.to_handle_api(p, rng)], "ka": ka, "roe": roe, "faults": []}
                    if not ka and i % 4 == 0:
                        yield {"prog": p, "ka": ka, "roe": roe, "faults": []}

    def nontrivial(self, case, obs):
        r = repr(case["prog"])
        return count_requests(case["prog"]) >= 2 and ("True" in r or "raise" in r)

    def klass(self, case, obs):
        return f"ka={int(case['ka'])}/roe={int(case['roe'])}/{'raise' if obs[1] else 'ok'}"


class ImplVsSpec(_Base):
    """the real tbot.Context against the reference model written from the documentation"""
    name = "impl_vs_spec"
    imports = ["Context", "ContextSpec"]
    model_fn = "spec_model"
    mismatch_is_violation = True


class ImplVsModel(_Base):
    """the real tbot.Context against the implementation model (on which the clause theorems are proved)"""
    name = "impl_vs_model"


SUITES = [ImplVsSpec(), ImplVsModel()]
