"""C16 -- verdicts are truthful: testcase events and CLI exit status match what happened."""
import itertools
import json
import os
import shutil
import subprocess
import sys
import tempfile

from vlib import coq
from vlib.framework import Suite

PROP = "C16"
TRUSTED = [
    "Coq 8.16.1 kernel; vm_compute for correspondence evaluation; no native_compute",
    "model coq/Testcase.v (testcase block, decorators, the try/except ladder of main.py and newbot.py) hand-written; tie = every generated tree is rendered as a Python module and run through BOTH command lines in a subprocess; events are read from the JSON log with the harness' own reader",
    "exception kinds in scope: Exception subclasses, KeyboardInterrupt, tbot.SkipException (SystemExit / GeneratorExit are outside the property's domain)",
]
ASSUMPTIONS = [
    "a skipped testcase is reported with skipped=True (success is then irrelevant, as documented in log_event.testcase_end)",
]
RULE = ("all trees of nested testcases up to a node bound whose nodes pass / raise / skip / are interrupted, called plainly or inside try/except Exception, declared through "
        "the decorator, the named decorator or the context-manager form, x sequences of 1-3 top-level testcases x both CLIs; non-trivial = a tree with a raising, skipping "
        "or interrupted node below the top level, or more than one top-level testcase; distinct by case hash")

BEH = ["BPass", "BRaise", "BSkip", "BKbd"]


def node_coq(t):
    name, form, children, b = t
    ch = coq.lst(lambda c: f"({coq.boolean(c[0])}, {node_coq(c[1])})", children, "(bool * tnode)")
    return f"(TNode {name}%nat {form}%nat {ch} {BEH[b]})"


def render(trees):
    """Python module source for a forest; every node becomes a function n<name>"""
    lines = ["import tbot", "", "class VerifError(Exception):", "    pass", ""]
    done = set()

    def emit(t):
        name, form, children, b = t
        for _, c in children:
            emit(c)
        if name in done:
            return
        done.add(name)
        body = []
        for catch, c in children:
            if catch == 2:
                # the caller handles the child's failure by running a recovery testcase INSIDE the except block
                body += ["try:", f"    n{c[0]}()", "except Exception:", f"    n{c[0]}r()"]
            elif catch:
                body += ["try:", f"    n{c[0]}()", "except Exception:", "    pass"]
            else:
                body.append(f"n{c[0]}()")
        # a skip with a reason, with an empty reason, or the bare exception: all three are skips
        skip = [f"tbot.skip('n{name}')", "tbot.skip('')", "raise tbot.SkipException()"][name % 3]
        body.append({0: "pass", 1: f"raise VerifError('n{name}')", 2: skip, 3: "raise KeyboardInterrupt()",
                     4: "import sys; sys.exit(3)", 5: f"import sys; sys.exit('fatal: n{name}')", 6: "import sys; sys.exit(0)"}[b])
        if form == 0:
            lines.append("@tbot.testcase")
            lines.append(f"def n{name}():")
            lines.extend("    " + x for x in body)
        elif form == 1:
            lines.append(f"@tbot.named_testcase('n{name}')")
            lines.append(f"def n{name}():")
            lines.extend("    " + x for x in body)
        else:
            lines.append(f"def n{name}():")
            lines.append(f"    with tbot.testcase('n{name}'):")
            lines.extend("        " + x for x in body)
        lines.append("")
    for t in trees:
        emit(t)
    # recovery testcases n<k>r (pass) for every node: used by catch == 2
    for name in sorted(done):
        lines += ["@tbot.testcase", f"def n{name}r():", "    pass", ""]
    return "\n".join(lines)


def read_log(path):
    """the harness' own reader of tbot's JSON event stream"""
    evs = []
    if not os.path.exists(path):
        return evs
    text = open(path).read()
    dec = json.JSONDecoder()
    i = 0
    while True:
        while i < len(text) and text[i].isspace():
            i += 1
        if i >= len(text):
            break
        obj, i = dec.raw_decode(text, i)
        evs.append(obj)
    return evs


def _nm(name):
    x = name[1:]
    return int(x) if x.isdigit() else x


def canon(events):
    out = []
    for e in events:
        t, d = e["type"], e["data"]
        if t == ["tc", "begin"]:
            out.append([1, _nm(d["name"])])
        elif t == ["tc", "end"]:
            out.append([2, _nm(d["name"]), bool(d["success"]), bool(d["skipped"])])
        elif t == ["exception"]:
            out.append([3, d["name"] == "KeyboardInterrupt"])
        elif t == ["tbot", "end"]:
            out.append([4, bool(d["success"])])
    return out


class CliSuite(Suite):
    name = "cli"
    imports = ["Testcase"]
    model_fn = "cli_model"
    shard = 300

    def coq_input(self, case):
        return coq.lst(node_coq, case["trees"], "tnode")

    def run(self, case):
        d = tempfile.mkdtemp(prefix="tv_c16_")
        try:
            mod = "tvmod"
            open(os.path.join(d, mod + ".py"), "w").write(render(case["trees"]))
            log = os.path.join(d, "log.json")
            names = [f"n{t[0]}" for t in case["trees"]]
            env = dict(os.environ, PYTHONPATH="/repo", CLICOLOR="0")
            if case["cli"] == "tbot":
                cmd = [sys.executable, "-c", "import tbot.main; tbot.main.main()", "-t", os.path.join(d, mod + ".py"),
                       "--log", log, "-q"] + names
            else:
                cmd = [sys.executable, "-c", "import tbot.newbot; tbot.newbot.main()", "--json-log-stream", log, "-q"] + \
                      [f"{mod}.{n}" for n in names]
            r = subprocess.run(cmd, cwd=d, env=env, capture_output=True, text=True, timeout=120)
            evs = canon(read_log(log))
            nesting = None
            return [evs, r.returncode]
        finally:
            shutil.rmtree(d, ignore_errors=True)

    # ---------------------------------------------------------------- generation
    def _trees(self, maxnodes, forms):
        """all trees with at most maxnodes nodes (names assigned afterwards)"""
        def gen(n):
            # n nodes: root + forests of total n-1 nodes
            if n == 1:
                for b in range(4):
                    yield (0, 0, [], b)
                return
            for parts in partitions(n - 1):
                for kids in itertools.product(*[list(gen(p)) for p in parts]):
                    for catches in itertools.product([False, True], repeat=len(kids)):
                        for b in range(4):
                            yield (0, 0, [[c, k] for c, k in zip(catches, kids)], b)

        def partitions(n):
            if n == 0:
                yield []
                return
            for first in range(1, n + 1):
                for rest in partitions(n - first):
                    yield [first] + rest
        for n in range(1, maxnodes + 1):
            yield from gen(n)

    def _label(self, t, counter, rng, forms):
        name = counter[0]
        counter[0] += 1
        form = rng.choice(forms)
        kids = [[c, self._label(k, counter, rng, forms)] for c, k in t[2]]
        return [name, form, kids, t[3]]

    def gen(self, tier, rng):
        thorough = tier == "thorough"
        trees = list(self._trees(4 if thorough else 3, None))
        # single top-level tree, every shape (forms vary randomly; the top-level must be CLI-visible: forms 0/1)
        sel = trees if thorough else [t for i, t in enumerate(trees) if len(t[2]) <= 1 or i % 3 == 0]
        for i, t in enumerate(sel):
            lab = self._label(t, [0], rng, [0, 1, 2])
            for cli in ("tbot", "newbot"):
                top = list(lab)
                top[1] = rng.choice([0, 1]) if cli == "tbot" else lab[1]
                yield {"trees": [top], "cli": cli}
        # sequences of top-level testcases
        small = [t for t in trees if 1 <= sum(1 for _ in self._count(t)) <= 2]
        for _ in range(400 if thorough else 120):
            k = rng.randint(2, 3)
            counter = [0]
            seq = []
            for _ in range(k):
                t = rng.choice(small)
                lab = self._label(t, counter, rng, [0, 1, 2])
                seq.append(lab)
            cli = rng.choice(["tbot", "newbot"])
            if cli == "tbot":
                for t in seq:
                    if t[1] == 2:
                        t[1] = rng.choice([0, 1])
            yield {"trees": seq, "cli": cli}

    def _count(self, t):
        yield t
        for _, k in t[2]:
            yield from self._count(k)

    # ---------------------------------------------------------------- oracle (from the property text)
    def oracle(self, case, obs):
        fails = []
        evs, code = obs
        # (1) begin/end properly nested
        stack = []
        for e in evs:
            if e[0] == 1:
                stack.append(e[1])
            elif e[0] == 2:
                if not stack or stack[-1] != e[1]:
                    fails.append(f"end event of n{e[1]} does not match the open testcase {stack[-1:] or None}")
                    break
                stack.pop()
        if stack:
            fails.append(f"testcases {stack} have a begin event but no end event (nesting level not restored)")
        # (2) truthfulness per node, by an independent evaluation of the tree
        expect = {}
        ran = []

        def ev_node(t):
            name, form, kids, b = t
            ran.append(name)
            escaped = None
            for catch, k in kids:
                o = ev_node(k)
                if o in ("kbd", "exit3", "exit1", "exit0") or (o == "exc" and not catch):
                    escaped = o
                    break
                if o == "exc" and catch == 2:
                    # the recovery testcase runs inside the except block and passes
                    ran.append(f"{k[0]}r")
                    expect[f"{k[0]}r"] = (True, False)
            if escaped:
                expect[name] = (False, False)
                return escaped
            if b == 0:
                expect[name] = (True, False); return None
            if b == 1:
                expect[name] = (False, False); return "exc"
            if b == 2:
                expect[name] = ("any", True); return None
            expect[name] = (False, False)
            return {3: "kbd", 4: "exit3", 5: "exit1", 6: "exit0"}[b]
        final = None
        for t in case["trees"]:
            final = ev_node(t)
            if final:
                break
        ends = {e[1]: (e[2], e[3]) for e in evs if e[0] == 2}
        begun = [e[1] for e in evs if e[0] == 1]
        if begun != ran:
            fails.append(f"testcases reported as begun {begun} != testcases that actually ran {ran} (later testcases must not be reported)")
        for n, (s, k) in expect.items():
            if n not in ends:
                continue
            gs, gk = ends[n]
            if gk != k or (s != "any" and gs != s):
                fails.append(f"end event of n{n} says success={gs} skipped={gk}; what happened: success={s} skipped={k}")
        # (3) CLI verdict
        tend = [e for e in evs if e[0] == 4]
        if final is None:
            if code != 0 or tend != [[4, True]]:
                fails.append(f"no exception escaped a top-level testcase but exit status {code}, final event {tend}")
        elif final == "exit0":
            pass        # sys.exit(0) from a testcase: the testcases' end events are judged above, the run's verdict is left open
        else:
            want = {"kbd": 130, "exit3": 3}.get(final, 1)
            if code != want or tend != [[4, False]]:
                fails.append(f"an exception ({final}) escaped a top-level testcase: exit status {code} (want {want}), final event {tend} (want FAILURE)")
        return fails

    def nontrivial(self, case, obs):
        deep = any(n[3] != 0 for t in case["trees"] for n in self._count(t) if n is not t)
        return deep or len(case["trees"]) > 1

    def klass(self, case, obs):
        return f"{case['cli']}/exit={obs[1]}"


class ExitSuite(CliSuite):
    """trees outside the Coq model, judged by the reference evaluation of the oracle only: a caller that handles a
    child's failure by running a recovery testcase inside its `except` block, and bodies that leave through
    sys.exit(3) / sys.exit("message") (exceptions that escape every `except Exception`)"""
    name = "cli_extra"
    model_fn = None

    def gen(self, tier, rng):
        n = 120 if tier == "thorough" else 40
        for i in range(n):
            counter = [0]

            def node(depth):
                name = counter[0]
                counter[0] += 1
                kids = []
                if depth > 0:
                    for _ in range(rng.randint(0, 2)):
                        kids.append([rng.choice([0, 1, 2, 2]), node(depth - 1)])
                return [name, rng.choice([0, 1, 2]), kids, rng.choice([0, 0, 1, 1, 2, 4, 5, 6])]
            trees = [node(rng.choice([1, 2])) for _ in range(rng.randint(1, 2))]
            for t in trees:
                if t[1] == 2:
                    t[1] = rng.choice([0, 1])      # a top-level testcase must be a decorated function for the classic CLI to find it
            yield {"trees": trees, "cli": "newbot" if i % 2 else "tbot"}

    def nontrivial(self, case, obs):
        return True

    def finding_key(self, case, obs, failure):
        return None


class LibSuite(Suite):
    """testcases used as a library (no command line: the nesting level starts at -1, nothing is printed): after every
    outermost testcase, whatever its form and outcome, the nesting level is back to its initial value.  Oracle only."""
    name = "library"
    model_fn = None

    def gen(self, tier, rng):
        suite = CliSuite()
        for form in (0, 1, 2):
            for b in (0, 1, 2):
                yield {"trees": [[0, form, [], b]], "initial": -1}
                yield {"trees": [[0, form, [[1, [1, (form + 1) % 3, [], b]]], 0], [2, form, [], b]], "initial": -1}
                yield {"trees": [[0, form, [], b]], "initial": 2}

    def run(self, case):
        d = tempfile.mkdtemp(prefix="tv_c16_")
        try:
            open(os.path.join(d, "tvmod.py"), "w").write(render(case["trees"]))
            names = [f"n{t[0]}" for t in case["trees"]]
            prog = ("import json, sys, tbot, tbot.log\n"
                    "import tvmod\n"
                    f"tbot.log.NESTING = {case['initial']}\n"
                    "out = []\n"
                    f"for n in {names!r}:\n"
                    "    try:\n"
                    "        getattr(tvmod, n)()\n"
                    "        r = 'ok'\n"
                    "    except BaseException as e:\n"
                    "        r = type(e).__name__\n"
                    "    out.append([n, r, tbot.log.NESTING])\n"
                    "sys.stderr.write('RESULT ' + json.dumps(out))\n")
            env = dict(os.environ, PYTHONPATH="/repo:" + d, CLICOLOR="0")
            r = subprocess.run([sys.executable, "-c", prog], cwd=d, env=env, capture_output=True, text=True, timeout=120)
            line = [x for x in r.stderr.splitlines() if x.startswith("RESULT ")]
            return json.loads(line[-1][7:]) if line else [["crash", r.stderr[-300:], None]]
        finally:
            shutil.rmtree(d, ignore_errors=True)

    def oracle(self, case, obs):
        fails = []
        for n, r, nesting in obs:
            if nesting != case["initial"]:
                fails.append(f"after the outermost testcase {n} ({r}) the nesting level is {nesting}, it was {case['initial']} before")
        return fails

    def nontrivial(self, case, obs):
        return True

    def klass(self, case, obs):
        return f"initial={case['initial']}"

    def finding_key(self, case, obs, failure):
        return None


SUITES = [CliSuite(), ExitSuite(), LibSuite()]
