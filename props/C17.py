"""C17 -- log events are recorded completely; the log file parses back to the same events."""
import contextlib
import importlib.util
import io
import json
import os
import sys
import tempfile

import tbot
import tbot.log

from vlib import coq
from vlib.framework import Suite

PROP = "C17"
TRUSTED = [
    "Coq 8.16.1 kernel; vm_compute for correspondence evaluation; no native_compute",
    "model coq/LogEvent.v (EventIO.write's replace chain, _print_stdout as a character-wise fold, close; logparser.logfile's read/raw_decode/lstrip loop over an abstract codec) hand-written; tie = correspondence with the real EventIO (captured stdout, getvalue()) and the real generators/logparser.py",
    "json is trusted through three framing hypotheses (a document decodes whatever follows it; a proper prefix of a document does not decode; documents start with a non-blank and are separated by blanks); a concrete brace/string scanner that satisfies them on json.dump(indent=2) output is used for evaluation and is compared with json.raw_decode on every generated log",
]
ASSUMPTIONS = [
    "the theorems about the terminal speak about a prefix that is constant while an event is written; changing nesting levels are covered by the model (ev_run_var) and its correspondence",
    "ASCII terminal (tbot.log.IS_UNICODE False, no colour) for the printed-text comparison",
]
RULE = ("write sequences (texts with CR/LF, CRLF, terminal-control sequences, non-ASCII, empty strings; every way of splitting a text over 1-4 write calls for short texts, "
        "random splits for longer ones) x event verbosity vs global verbosity x nesting x user prefix; log files of 1-6 events with payloads containing quotes, backslashes, "
        "braces, control characters, non-ASCII, lone surrogates and payloads larger than the parser's read size, parsed with read sizes 1..8192; "
        "non-trivial = a text whose splitting point falls next to a CR/LF/ESC, or an event straddling a read boundary; distinct by case hash")

_spec = importlib.util.spec_from_file_location("tv_logparser", "/repo/generators/logparser.py")
logparser = importlib.util.module_from_spec(_spec)
_spec.loader.exec_module(logparser)


def s2l(s):
    return coq.nlist(ord(c) for c in s)


def expected_prefix(case):
    if case["nesting"] == -1:
        return ""
    return "|   " * case["nesting"] + "| " + (case["prefix"] or "")


class EvioSuite(Suite):
    name = "evio"
    imports = ["LogEvent"]
    model_fn = "evio_model"
    shard = 400

    def coq_input(self, case):
        enabled = case["ev_verb"] <= case["VERB"]
        return f"({coq.boolean(enabled)}, {s2l(expected_prefix(case))}, {coq.lst(s2l, case['writes'], '(list N)')})"

    def obs_term(self, case, obs):
        return coq.V(obs[:2])

    def run(self, case):
        saved = (tbot.log.VERBOSITY, tbot.log.NESTING, tbot.log.IS_UNICODE, tbot.log.IS_COLOR, tbot.log.LOGFILE)
        out = io.StringIO()
        try:
            tbot.log.VERBOSITY = tbot.log.Verbosity(case["VERB"])
            tbot.log.NESTING = case["nesting"]
            tbot.log.IS_UNICODE = False
            tbot.log.IS_COLOR = False
            tbot.log.LOGFILE = None
            with contextlib.redirect_stdout(out):
                ev = tbot.log.EventIO(["verif"], "header", verbosity=tbot.log.Verbosity(case["ev_verb"]))
                if case["prefix"] is not None:
                    ev.prefix = case["prefix"]
                header_len = len(out.getvalue())
                stored_after = []
                for w in case["writes"]:
                    ev.write(w)
                    stored_after.append(ev.getvalue())
                stored = ev.getvalue()
                ev.close()
            printed = out.getvalue()[header_len:]
            return [stored, printed, out.getvalue()[:header_len]]
        finally:
            (tbot.log.VERBOSITY, tbot.log.NESTING, tbot.log.IS_UNICODE, tbot.log.IS_COLOR, tbot.log.LOGFILE) = saved

    TEXTS = ["a\nb", "line\r\nnext\n", "x\ry", "\n\n", "p\x1b[Hq", "\x1b[2Jz\x1b7", "ü€\n", "a\n\rb", "\r", "end", "", "\x1b[999;999H\x1b[6n", "50%\r75%\r\n"]

    def gen(self, tier, rng):
        thorough = tier == "thorough"
        # every split of short texts into consecutive writes
        for text in self.TEXTS:
            n = len(text)
            cuts = range(1 << max(0, n - 1)) if n <= (9 if thorough else 7) else [rng.getrandbits(n - 1) for _ in range(40)]
            for mask in cuts:
                ws, start = [], 0
                for i in range(n - 1):
                    if mask >> i & 1:
                        ws.append(text[start:i + 1]); start = i + 1
                ws.append(text[start:])
                for (evv, V) in ((3, 3), (4, 3)):
                    yield {"writes": ws, "ev_verb": evv, "VERB": V, "nesting": 1, "prefix": None}
        alpha = ["a", "b", "\n", "\r", "\x1b", "[", "H", "2", "J", "7", " ", "é", "6", "n", "r", "u", "9", ";"]
        for _ in range(20000 if thorough else 3000):
            text = "".join(rng.choice(alpha) for _ in range(rng.randint(0, 24)))
            k = rng.randint(1, 4)
            cuts = sorted(rng.sample(range(len(text) + 1), min(k - 1, len(text) + 1))) if text else []
            ws, prev = [], 0
            for c in cuts + [len(text)]:
                ws.append(text[prev:c]); prev = c
            yield {"writes": ws, "ev_verb": rng.choice([0, 1, 2, 3, 4]), "VERB": rng.choice([0, 2, 3, 4]),
                   "nesting": rng.choice([-1, 0, 1, 3]), "prefix": rng.choice([None, None, "   ## "])}

    def oracle(self, case, obs):
        fails = []
        stored, printed, header = obs
        # stored once, in order: the concatenation of the sanitised writes
        want = ""
        for w in case["writes"]:
            for pat in ("\x1b[H", "\x1b[999;999H", "\x1b[6n", "\x1b[2J", "\x1b[r", "\x1b[u", "\x1b7"):
                w = w.replace(pat, "")
            w = w.replace("\r\n", "\n").replace("\n\r", "\n")
            want += w
        if stored != want:
            fails.append(f"stored text {stored!r} is not the concatenation of the (sanitised) writes {want!r}")
        if case["ev_verb"] > case["VERB"]:
            if printed != "" or header != "":
                fails.append(f"event above the verbosity level printed {header + printed!r}")
            return fails
        # printed = stored, each character once, with the prefix at the start of every line
        pfx = expected_prefix(case)
        exp, nl = "", True
        for ch in stored:
            if nl:
                exp += pfx
                nl = False
            if ch in "\r\n":
                nl = True
            exp += ch
        if not nl:
            exp += "\n"
        if printed != exp:
            fails.append(f"terminal shows {printed!r}; stored text rendered with prefix {pfx!r} at every line start is {exp!r}")
        return fails

    def nontrivial(self, case, obs):
        ws = case["writes"]
        return len(ws) >= 2 and any(w and (w[-1] in "\r\n\x1b[" or w[0] in "\r\nH[") for w in ws)

    def klass(self, case, obs):
        return ("printed" if case["ev_verb"] <= case["VERB"] else "silent") + f"/writes={min(len(case['writes']), 4)}"


class EvioNestSuite(EvioSuite):
    """the nesting level changes while the event is open (a testcase begins or ends between two writes): every line
    gets the prefix in force when it starts to be printed"""
    name = "evio_nest"
    model_fn = "evio_var_model"

    @staticmethod
    def pfx(n, user):
        return "" if n == -1 else "|   " * n + "| " + (user or "")

    def coq_input(self, case):
        enabled = case["ev_verb"] <= case["VERB"]
        items = [[self.pfx(n, case["prefix"]), w] for n, w in zip(case["nests"], case["writes"])]
        if case.get("msg_rest") is not None:
            # the rest of a multi-line message is written by the constructor (before ev.prefix can be set)
            n0 = case["nests"][0] if case["nests"] else case["close_nest"]
            items.insert(0, [self.pfx(n0, None), case["msg_rest"] + "\n"])
        pws = coq.lst(lambda pw: f"({s2l(pw[0])}, {s2l(pw[1])})", items, "(list N * list N)")
        return f"({coq.boolean(enabled)}, {s2l(self.pfx(case['close_nest'], case['prefix']))}, {pws})"

    def run(self, case):
        saved = (tbot.log.VERBOSITY, tbot.log.NESTING, tbot.log.IS_UNICODE, tbot.log.IS_COLOR, tbot.log.LOGFILE)
        out = io.StringIO()
        try:
            tbot.log.VERBOSITY = tbot.log.Verbosity(case["VERB"])
            tbot.log.NESTING = case["nests"][0] if case["nests"] else case["close_nest"]
            tbot.log.IS_UNICODE = False
            tbot.log.IS_COLOR = False
            tbot.log.LOGFILE = None
            with contextlib.redirect_stdout(out):
                msg = "header" if case.get("msg_rest") is None else "header\n" + case["msg_rest"]
                ev = tbot.log.EventIO(["verif"], msg, verbosity=tbot.log.Verbosity(case["ev_verb"]))
                if case["prefix"] is not None:
                    ev.prefix = case["prefix"]
                header_len = out.getvalue().find("header") + len("header\n") if case["ev_verb"] <= case["VERB"] else 0
                for n, w in zip(case["nests"], case["writes"]):
                    tbot.log.NESTING = n
                    ev.write(w)
                stored = ev.getvalue()
                tbot.log.NESTING = case["close_nest"]
                ev.close()
            printed = out.getvalue()[header_len:]
            return [stored, printed, out.getvalue()[:header_len]]
        finally:
            (tbot.log.VERBOSITY, tbot.log.NESTING, tbot.log.IS_UNICODE, tbot.log.IS_COLOR, tbot.log.LOGFILE) = saved

    def gen(self, tier, rng):
        alpha = ["a", "b", "\n", "\n", "\r", " ", "é", "x"]
        for _ in range(6000 if tier == "thorough" else 1200):
            k = rng.randint(2, 5)
            ws = ["".join(rng.choice(alpha) for _ in range(rng.randint(0, 6))) for _ in range(k)]
            base = rng.choice([0, 1, 2])
            nests = [max(0, base + rng.choice([0, 0, 1, -1, 2])) for _ in range(k)]
            yield {"writes": ws, "nests": nests, "close_nest": rng.choice(nests + [base]), "ev_verb": rng.choice([1, 3, 4]), "VERB": rng.choice([3, 3, 4]),
                   "prefix": rng.choice([None, None, "# "]),
                   "msg_rest": rng.choice([None, None, "second line", "second\nthird\nfourth", "2\n\n4", ""])}

    def oracle(self, case, obs):
        fails = []
        stored, printed, header = obs
        if case["ev_verb"] > case["VERB"]:
            return [f"event above the verbosity level printed {header + printed!r}"] if (printed or header) else []
        items = [[n, case["prefix"], w] for n, w in zip(case["nests"], case["writes"])]
        if case.get("msg_rest") is not None:
            items.insert(0, [case["nests"][0] if case["nests"] else case["close_nest"], None, case["msg_rest"] + "\n"])
        if stored != "".join(w.replace("\r\n", "\n").replace("\n\r", "\n") for _, _, w in items):
            fails.append(f"stored text {stored!r} is not the concatenation of the rest of the message and the writes")
        # every character once; at every line start the prefix in force while that write is printed
        exp, nl, pos = "", True, 0
        for n, upfx, w in items:
            w = w.replace("\r\n", "\n").replace("\n\r", "\n")
            for ch in w:
                if nl:
                    exp += self.pfx(n, upfx)
                    nl = False
                if ch in "\r\n":
                    nl = True
                exp += ch
        if not nl:
            exp += "\n"
        if printed != exp:
            fails.append(f"terminal shows {printed!r}; with the prefix in force at each line start (nesting levels {case['nests']}) it should be {exp!r}")
        return fails

    def nontrivial(self, case, obs):
        return len(set(case["nests"])) >= 2

    def klass(self, case, obs):
        return ("printed" if case["ev_verb"] <= case["VERB"] else "silent") + f"/levels={len(set(case['nests']))}"


def _payload(rng, size):
    alpha = ['"', "\\", "{", "}", "[", "]", " ", "\n", "\t", "\x01", "é", "€", "\ud83d", "a", "b", ":", ",", "  ", "\\n", '\\"']
    return "".join(rng.choice(alpha) for _ in range(size))


class LogfileSuite(Suite):
    name = "logfile"
    imports = ["LogEvent"]
    model_fn = "parser_model"
    shard = 60

    def coq_input(self, case):
        text, _ = self._file_text(case)
        return f"({case['read_size']}%nat, {s2l(text)})"

    def obs_term(self, case, obs):
        return coq.V(obs[0])

    def _file_text(self, case):
        saved = (tbot.log.LOGFILE, tbot.log.VERBOSITY, tbot.log.START_TIME, tbot.log.time)
        raw_buf = io.BytesIO()
        buf = io.TextIOWrapper(raw_buf, encoding="utf-8", newline="")      # what open(path, "w") gives under a UTF-8 locale
        errs = []

        class FakeTime:
            t = 0.0

            def monotonic(self):
                FakeTime.t += 0.125
                return FakeTime.t
        try:
            tbot.log.time = FakeTime()
            tbot.log.START_TIME = 0.0
            tbot.log.LOGFILE = buf
            tbot.log.VERBOSITY = tbot.log.Verbosity.QUIET
            with contextlib.redirect_stdout(io.StringIO()):
                evs = []
                for e in case["events"]:
                    ev = tbot.log.EventIO(e["type"], "m", verbosity=tbot.log.Verbosity.CHANNEL, **e["data"])
                    evs.append(ev)
                # close in the given order (closing order = file order)
                for n, i in enumerate(case["close_order"]):
                    try:
                        evs[i].close()
                    except Exception as e:  # noqa
                        errs.append(f"closing event {n} raised {type(e).__name__}: {str(e)[:80]}")
            buf.flush()
            return raw_buf.getvalue().decode("utf-8", "replace"), errs
        finally:
            tbot.log.LOGFILE, tbot.log.VERBOSITY, tbot.log.START_TIME, tbot.log.time = saved

    def run(self, case):
        text, errs = self._file_text(case)
        d = tempfile.mkdtemp(prefix="tv_c17_")
        path = os.path.join(d, "log.json")
        try:
            with open(path, "w") as f:
                f.write(text)
            saved = logparser.READ_SIZE
            logparser.READ_SIZE = case["read_size"]
            try:
                parsed = list(logparser.logfile(path))
            finally:
                logparser.READ_SIZE = saved
            raw = [json.dumps({"type": p.type, "time": p.time, "data": p.data}, indent=2) for p in parsed]
            back = [[p.type, p.data] for p in parsed]
            return [raw, back, len(text), errs]
        finally:
            try:
                os.remove(path); os.rmdir(d)
            except OSError:
                pass

    BIG = False

    def gen(self, tier, rng):
        thorough = tier == "thorough"
        for i in range((400 if thorough else 90) if not self.BIG else (120 if thorough else 30)):
            k = rng.randint(1, 6) if not self.BIG else rng.randint(1, 4)
            events = []
            for j in range(k):
                big = self.BIG and rng.random() < 0.6
                size = rng.choice([8100, 8192, 9000, 17000]) if big else rng.randint(0, 40)
                events.append({"type": [rng.choice(["cmd", "tc", "msg"]), rng.choice(["begin", "end", "x y"])],
                               "data": {"stdout": _payload(rng, size), "n": rng.randint(-5, 5), "nested": {"k": [1, "}", {"q": "{"}]}}})
            order = list(range(k))
            rng.shuffle(order)
            rs = 8192 if self.BIG else rng.choice([1, 2, 3, 7, 16, 64, 100, 250])
            yield {"events": events, "close_order": order, "read_size": rs}

    def oracle(self, case, obs):
        raw, back, _, errs = obs
        want = [[case["events"][i]["type"], case["events"][i]["data"]] for i in case["close_order"]]
        fails = [e + " (the event is not in the log file)" for e in errs]
        if len(back) != len(want):
            fails.append(f"log parser yielded {len(back)} events, {len(want)} were closed")
        else:
            for n, (a, b) in enumerate(zip(back, want)):
                if a != b:
                    fails.append(f"event {n} reads back with different type/data: {str(a)[:120]!r} vs {str(b)[:120]!r}")
                    break
        return fails

    def nontrivial(self, case, obs):
        return obs[2] > case["read_size"]

    def klass(self, case, obs):
        return f"read={case['read_size']}/file>{'8k' if obs[2] > 8192 else 'small'}"


class LogfileBigSuite(LogfileSuite):
    """payloads larger than the parser's real 8 KiB read size: judged by the oracle only (literals of this size are
    not fed to coqc); the small-file suite above exercises the same boundary positions with small read sizes"""
    name = "logfile_big"
    model_fn = None
    BIG = True


SUITES = [EvioSuite(), EvioNestSuite(), LogfileSuite(), LogfileBigSuite()]


def extra_obligations(tier):
    """the translated part of the model: regenerated from the current source and re-proved equal to what the theorems use"""
    from vlib import gen
    return gen.obligations(only=["gen_sanitize_is_the_model"])
