"""C18 -- board bring-up reaches an in-sync shell for any console timing or times out duly."""
import contextlib
import random

import tbot
import tbot.error
from tbot.machine import board, channel, connector, linux

from vlib import coq
from vlib.framework import Suite
from . import shell_common as sc
from . import chan_common as cc
from . import C01

PROP = "C18"
TRUSTED = [
    "Coq 8.16.1 kernel; vm_compute for correspondence evaluation; no native_compute",
    "model coq/Boot.v (AskfirstInitializer, LinuxBootLogin._init_machine with _boot_start / _timeout_remaining / login_delay / no_password_timeout, UBootAutobootIntercept, UBootShell._init_shell's poll loop) over coq/Channel.v, hand-written; tie = correspondence with the real board classes over a reactive scripted console under the virtual clock",
    "the simulated console (boot messages, autoboot countdown, U-Boot prompt, askfirst banner, login / password prompts, shell) with arbitrary fragmentation, delays, garbage and stalls",
    "Python's own execution time is not modelled (virtual clock: only reads, sleeps and arrivals take time)",
]
ASSUMPTIONS = [
    "liveness (reaching a shell) is claimed only for consoles that eventually answer every stimulus; safety (what is sent when, deadlines, power-off) for all consoles",
    "time is measured on the virtual clock in units of 1/1024 s",
]
RULE = ("console transcripts built from boot messages, optional askfirst banner, login prompt (optionally cluttered and re-issued), optional password prompt, shell; optional U-Boot stage (autoboot countdown, prompt, ^C polls); "
        "every piece delayed by 0..3 s and cut at random points or byte by byte; stalls at every stage; boot_timeout in {None, 2, 5, 20 s}, login_delay in {0, 1, 3 s}, no_password_timeout in {None, 1, 5 s}; "
        "non-trivial = a stall, a timeout configuration or a fragmentation inside a prompt; distinct by case hash")

U = 1024


class PowerLog:
    def __init__(self, clock):
        self.clock = clock
        self.ev = []


class BootSim:
    """reactive console of a board that boots Linux (optionally after a U-Boot stage)"""

    def __init__(self, cfg, rng):
        self.cfg = cfg
        self.rng = rng
        self.state = "boot"
        self.shell = C01.LinuxSim()
        self.lines = []

    def frag(self, data, t0):
        """timed pieces [[dt, bytes]] for data starting at t0 (units), fragmentation and gaps per config"""
        cfg, rng = self.cfg, self.rng
        if not data:
            return []
        if cfg["frag"] == "bytes":
            pieces = [data[i:i + 1] for i in range(len(data))]
        elif cfg["frag"] == "whole":
            pieces = [data]
        else:
            pieces = cc.rand_split(rng, data, 6)
        out, t = [], t0
        for p in pieces:
            t += rng.choice([0, 0, 1, cfg["gap"], rng.randint(0, cfg["gap"])]) if cfg["gap"] else 0
            out.append([t, bytes(p)])
        return out

    def initial(self):
        cfg = self.cfg
        msgs = b"".join(b"[    %d.%06d] %s\r\n" % (i, i * 137, m) for i, m in enumerate(cfg["kmsg"]))
        out = self.frag(msgs, cfg["boot_delay"])
        t = out[-1][0] if out else cfg["boot_delay"]
        if cfg["stall"] == "boot":
            self.state = "dead"
            return out
        if cfg["askfirst"]:
            self.state = "askfirst"
            out += self.frag(b"\r\nPlease press Enter to activate this console. " + cfg["garbage"], t + cfg["d_ask"])
        else:
            self.state = "login"
            out += self.frag(b"\r\nWelcome to board\r\nboard login: ", t + cfg["d_login"])
        return out

    def react(self, line):
        """-> list of [dt, bytes] relative to now"""
        cfg = self.cfg
        self.lines.append([self.state, line.hex()])
        if self.state == "dead":
            return []
        if self.state == "askfirst":
            if cfg["stall"] == "askfirst":
                self.state = "dead"
                return self.frag(b"\r\n", 0)
            self.state = "login"
            return self.frag(b"\r\n" + cfg["garbage"] + b"\r\nboard login: ", cfg["d_login"])
        if self.state == "login":
            echo = line + b"\r\n"
            if line == b"":
                return self.frag(b"\r\n" + cfg["clutter"] + b"board login: ", cfg["d_relogin"])
            if cfg["stall"] == "password":
                self.state = "dead"
                return self.frag(echo, 0)
            if cfg["pw_prompt"]:
                self.state = "password"
                return self.frag(echo + b"Password: ", cfg["d_pw"])
            self.state = "shell"
            return self.frag(echo + b"Last login: now\r\n$ ", cfg["d_pw"])
        if self.state == "password":
            self.state = "shell"
            return self.frag(b"\r\nLast login: now\r\n$ ", cfg["d_shell"])
        if self.state == "shell":
            return [[0, b"".join(self.shell.react(line))]]
        return []


class RecIO(sc.StageIO):
    """reactive console that records when what was written and the reaction to every line (as stages)"""

    def __init__(self, sim, clock):
        super().__init__([], [], clock, initial=[])
        self.sim = sim
        self.wlog = []
        self.stage_log = []
        self.seen = bytearray()
        st0 = sim.initial()
        self.stage_log.append([[t, d] for t, d in st0])
        for t, d in st0:
            self.pend.append([t, d])
        self.reactor = self._react

    def _react(self, line):
        st = self.sim.react(line)
        self.stage_log.append([[t, d] for t, d in st])
        now = self.clock.t
        for dt, d in st:
            self.pend.append([now + dt, d])
        return b""

    def write(self, buf):
        if len(self.wlog) > 300:
            raise cc.Blocked()        # a poll loop without timeout against a dead console: it would go on for ever
        self.wlog.append([self.clock.t, bytes(buf), bytes(self.seen)])
        return super().write(buf)

    def read(self, n, timeout=None):
        if timeout is not None:
            timeout = round(timeout * sc.UNIT) / sc.UNIT
        d = sc.ScriptIO.read(self, n, timeout)
        self.seen += d
        return d


def seen_summary(seen: bytes):
    """what matters of the console output received before a write (kept small: observations are held in memory)"""
    return {"login": b"login: " in seen, "pw": b"Password: " in seen, "auto": b"autoboot:" in seen, "tail": bytes(seen[-60:]).hex()}


def mk_linux(io, cfg, power, with_shell):
    class Conn(connector.Connector):
        @contextlib.contextmanager
        def _connect(self):
            yield channel.Channel(io)

        def clone(self):
            raise NotImplementedError()

    class Power(board.PowerControl):
        def poweron(self):
            power.ev.append(["on", power.clock.t])

        def poweroff(self):
            power.ev.append(["off", power.clock.t])

    bases = [Conn, Power]
    if cfg["askfirst"]:
        bases.append(board.AskfirstInitializer)
    bases.append(board.LinuxBootLogin)
    bases.append(linux.Bash if with_shell else board.Board)
    attrs = {"name": "sim-board", "username": cfg["user"], "password": cfg["password"],
             "boot_timeout": None if cfg["boot_timeout"] is None else cfg["boot_timeout"] / U,
             "login_delay": cfg["login_delay"] / U,
             "no_password_timeout": None if cfg["no_pw_timeout"] is None else cfg["no_pw_timeout"] / U}
    return type("SimLinux", tuple(bases), attrs)


def run_boot(case, with_shell):
    cfg = case["cfg"]
    rng = random.Random(case["seed"])
    clock = sc.VirtualClock()
    sim = BootSim(dict(cfg, kmsg=[m.encode() for m in cfg["kmsg"]], garbage=cfg["garbage"].encode(), clutter=cfg["clutter"].encode()), rng)
    io = RecIO(sim, clock)
    power = PowerLog(clock)
    res = None
    first = None
    bootlog = None
    with sc.patched_clock(clock), sc.quiet_log():
        M = mk_linux(io, cfg, power, with_shell)
        try:
            with M() as m:
                res = ["ok", clock.t]
                bootlog = getattr(m, "bootlog", None)
                if with_shell:
                    first = list(m.exec("echo", "first command"))
        except TimeoutError as e:
            res = ["timeout", clock.t, str(e)]
        except cc.Blocked:
            res = ["blocked", clock.t]
        except Exception as e:  # noqa
            res = ["exc", clock.t, type(e).__name__, str(e)[:100]]
    writes = [[t, b.hex(), seen_summary(s)] for t, b, s in io.wlog]
    case["_stages"] = [[[t, d.hex()] for t, d in st] for st in io.stage_log]
    return [res, [[t, b] for t, b, _ in io.wlog], power.ev, first, bootlog, writes, sim.lines]


def login_oracle(case, obs, with_shell):
    cfg = case["cfg"]
    res, wl, power, first, bootlog, writes, lines = obs
    fails = []
    user = cfg["user"].encode() + b"\r"
    pw = (cfg["password"] or "").encode() + b"\r"
    # what is sent when: the user name only in response to a login prompt, the password only to a password prompt
    for t, bhex, seen in writes:
        b = bytes.fromhex(bhex)
        if b == user and user != pw:
            if not seen["login"]:
                fails.append(f"the user name was sent at t={t} although no login prompt had been received: console so far {bytes.fromhex(seen['tail'])!r}")
        if cfg["password"] and b == pw and user != pw:
            if not seen["pw"]:
                fails.append(f"the password was sent at t={t} although no password prompt had been received: console so far {bytes.fromhex(seen['tail'])!r}")
    # the board is powered on first and powered off last
    if not power or power[0][0] != "on" or power[-1][0] != "off" or len(power) != 2:
        fails.append(f"power sequence {power!r}")
    T = cfg["boot_timeout"]
    if res[0] == "timeout" and T is None and cfg["no_pw_timeout"] is None:
        fails.append(f"TimeoutError at t={res[1]} although no timeout is configured")
    if T is not None:
        # the stage begins when the machine starts waiting (t=0: power-on and connect take no time here)
        if res[0] in ("timeout",) and res[1] > T:
            fails.append(f"bring-up failed with TimeoutError at t={res[1] / U:.3f}s, later than boot_timeout={T / U:.3f}s after the stage began")
        if res[0] == "ok" and res[1] > T and not with_shell:
            fails.append(f"login finished at t={res[1] / U:.3f}s although boot_timeout={T / U:.3f}s had expired")
        pw_sent = any(bytes.fromhex(bhex) == pw for _, bhex, _ in writes)
        if res[0] == "ok" and res[1] >= T and cfg["password"] and not pw_sent and user != pw and not with_shell:
            # the wait for the password prompt was ended by the boot timeout, not by no_password_timeout
            fails.append(f"login continued without a password at t={res[1] / U:.3f}s: the password prompt never came and "
                         f"boot_timeout={T / U:.3f}s expired while waiting for it (TimeoutError expected)")
        if res[0] == "blocked":
            fails.append(f"bring-up waits for ever (t={res[1] / U:.3f}s) although boot_timeout={T / U:.3f}s is configured")
    if res[0] == "exc":
        fails.append(f"bring-up raised {res[2:]!r}")
    if with_shell and res[0] == "ok":
        if first != [0, "first command\n"]:
            fails.append(f"the first command on the booted shell returned {first!r}")
        if bootlog is None or "login: " not in bootlog:
            fails.append(f"bootlog does not hold the console output up to the login: {bootlog!r:.200}")
    return fails


def rand_cfg(rng, tier):
    pw = rng.choice(["hunter2", "hunter2", None, ""])
    return {
        "kmsg": [rng.choice(["Booting Linux", "login: not yet (kernel)", "random: crng init done", "Password: in a log line", "eth0: link up"]) for _ in range(rng.randint(0, 4))],
        "boot_delay": rng.choice([0, 100, 1024, 3000]),
        "askfirst": rng.random() < 0.4,
        "garbage": rng.choice(["", "", "[ 5.1] late message", "\r\n"]),
        "clutter": rng.choice(["", "[ 9.9] systemd noise\r\n"]),
        "d_ask": rng.choice([0, 512, 2048, 4608]), "d_login": rng.choice([0, 512, 2048, 4608]), "d_relogin": rng.choice([0, 256]),
        "d_pw": rng.choice([0, 256, 1500, 6000]), "d_shell": rng.choice([0, 512]),
        "pw_prompt": rng.random() < 0.8,
        "stall": rng.choice([None, None, None, "boot", "askfirst", "password"]),
        "frag": rng.choice(["whole", "random", "random", "bytes"]), "gap": rng.choice([0, 0, 64, 700]),
        "user": rng.choice(["root", "tbot"]), "password": pw,
        "boot_timeout": rng.choice([None, 2048, 5120, 20480]),
        "login_delay": rng.choice([0, 0, 1024, 3072]),
        "no_pw_timeout": rng.choice([None, 1024, 5120]),
    }


def cfg_coq(cfg):
    pw = "None" if cfg["password"] is None else f"(Some {sc.codepoints(cfg['password'])})"
    return (f"(mkB {coq.boolean(cfg['askfirst'])} {sc.codepoints(cfg['user'])} {pw} {coq.opt(coq.z, cfg['boot_timeout'], 'Z')} "
            f"{coq.z(cfg['login_delay'])} {coq.opt(coq.z, cfg['no_pw_timeout'], 'Z')})")


class LoginSuite(Suite):
    """AskfirstInitializer + LinuxBootLogin on a raw console (no shell behind it)"""
    name = "login"
    imports = ["Channel", "Hush", "Session", "Boot"]
    model_fn = "boot_model"
    shard = 200

    def run(self, case):
        return run_boot(case, False)

    def coq_input(self, case):
        sts = [[[t, bytes.fromhex(d)] for t, d in st] for st in case["_stages"]]
        return f"({cfg_coq(case['cfg'])}, {sc.stages_coq(sts)})"

    def obs_term(self, case, obs):
        res = obs[0]
        code = {"ok": [0], "timeout": [1], "blocked": [2, 2]}.get(res[0], [9, res[0]])
        return coq.V([code, res[1], b"".join(b for _, b in obs[1])])

    def oracle(self, case, obs):
        return login_oracle(case, obs, False)

    def nontrivial(self, case, obs):
        c = case["cfg"]
        return c["stall"] is not None or c["boot_timeout"] is not None or c["frag"] != "whole"

    def klass(self, case, obs):
        return f"{obs[0][0]}:{'ask' if case['cfg']['askfirst'] else 'plain'}:{case['cfg']['stall']}"

    def finding_key(self, case, obs, failure):
        return None

    def gen(self, tier, rng):
        for _ in range(1500 if tier == "quick" else 6000):
            cfg = rand_cfg(rng, tier)
            if cfg["boot_timeout"] is None and cfg["stall"] is not None and cfg["no_pw_timeout"] is None:
                cfg["boot_timeout"] = 5120        # otherwise the run just blocks, which is the documented behaviour
            yield {"cfg": cfg, "seed": rng.randrange(1 << 30)}


class FullBootSuite(Suite):
    """the same with linux.Bash behind the login: the first command must be exact"""
    name = "fullboot"
    model_fn = None

    def run(self, case):
        return run_boot(case, True)

    def oracle(self, case, obs):
        return login_oracle(case, obs, True)

    def nontrivial(self, case, obs):
        return True

    def klass(self, case, obs):
        return f"{obs[0][0]}:{'ask' if case['cfg']['askfirst'] else 'plain'}"

    def finding_key(self, case, obs, failure):
        return None

    def gen(self, tier, rng):
        for _ in range(300 if tier == "quick" else 1500):
            cfg = rand_cfg(rng, tier)
            cfg["stall"] = None
            cfg["pw_prompt"] = True if cfg["password"] else cfg["pw_prompt"]
            if cfg["boot_timeout"] is not None:
                cfg["boot_timeout"] = 40960
            yield {"cfg": cfg, "seed": rng.randrange(1 << 30)}


SUITES = [LoginSuite(), FullBootSuite()]

from . import C18u  # noqa: E402  (the U-Boot stage; imports this module)

SUITES = SUITES + C18u.SUITES


def extra_obligations(tier):
    """the translated part of the model: regenerated from the current source and re-proved equal to what the theorems use"""
    from vlib import gen
    return gen.obligations(only=["gen_board_constants_are_the_model"])
