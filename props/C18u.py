"""C18, U-Boot stage: UBootAutobootIntercept + UBootShell._init_shell over a reactive scripted console."""
import contextlib
import random

import tbot
import tbot.error
from tbot.machine import board, channel, connector

from vlib import coq
from vlib.framework import Suite
from . import shell_common as sc
from . import chan_common as cc
from . import C18
from . import C19

U = 1024


class UBootBootSim:
    """console of a board in its boot loader: banner, optional autoboot countdown, prompt after a key / ^C"""

    def __init__(self, cfg, rng):
        self.cfg = cfg
        self.rng = rng
        self.state = "count" if cfg["countdown"] else "busy"
        self.intrs = 0
        self.ub = C19.UBootSim(cfg["prompt"].encode())
        self.lines = []

    frag = C18.BootSim.frag

    def initial(self):
        cfg = self.cfg
        out = self.frag(b"\r\nU-Boot 2024.01 (sim)\r\nDRAM:  1 GiB\r\n" + cfg["noise"].encode(), cfg["boot_delay"])
        t = out[-1][0] if out else cfg["boot_delay"]
        if cfg["stall"] == "banner":
            self.state = "dead"
            return out
        if cfg["countdown"]:
            out += self.frag(b"Hit any key to stop autoboot:  3 ", t + cfg["d_count"])
        elif cfg["prompt_at_start"]:
            self.state = "shell"
            out += self.frag(cfg["prompt"].encode(), t + cfg["d_prompt"])
        return out

    def react(self, line):
        cfg = self.cfg
        self.lines.append([self.state, line.hex()])
        if self.state == "count":
            if cfg["stall"] == "key":
                self.state = "dead"
                return []
            self.state = "shell" if cfg["need_intr"] == 0 else "busy"
            if self.state == "shell":
                return self.frag(b"\r\n" + cfg["prompt"].encode(), cfg["d_prompt"])
            return self.frag(b"\r\nbusy...", cfg["d_prompt"])
        if self.state == "shell":
            return [[0, b"".join(self.ub.react(line))]]
        return []

    def intr(self):
        cfg = self.cfg
        self.lines.append([self.state, "03"])
        if self.state == "busy":
            self.intrs += 1
            if self.intrs >= cfg["need_intr"] and cfg["stall"] != "intr":
                self.state = "shell"
                return self.frag(b"<INTERRUPT>\r\n" + cfg["prompt"].encode(), cfg["d_intr"])
            return self.frag(b"^C", 0)
        if self.state == "shell":
            return self.frag(b"<INTERRUPT>\r\n" + cfg["prompt"].encode(), 0)
        return []


class URecIO(C18.RecIO):
    def write(self, buf):
        k = super().write(buf)
        if b"\x03" in bytes(buf):
            self._line = getattr(self, "_line", b"").replace(b"\x03", b"")     # ^C is not part of a command line
            st = self.sim.intr()
            self.stage_log.append([[t, d] for t, d in st])
            now = self.clock.t
            for dt, d in st:
                self.pend.append([now + dt, d])
        return k


def mk_uboot(io, cfg, power):
    class Conn(connector.Connector):
        @contextlib.contextmanager
        def _connect(self):
            ch = channel.Channel(io)
            # a channel that carries a black-list from an earlier user (a chain-loaded second stage, a shell that ran
            # on it before): the autoboot keys are configuration, they are sent whatever that list says
            ch._write_blacklist = list(cfg.get("pre_bl", []))
            yield ch

        def clone(self):
            raise NotImplementedError()

    class Power(board.PowerControl):
        def poweron(self):
            power.ev.append(["on", power.clock.t])

        def poweroff(self):
            power.ev.append(["off", power.clock.t])

    bases = [Conn, Power]
    if cfg["autoboot"]:
        bases.append(board.UBootAutobootIntercept)
    bases.append(board.UBootShell)
    attrs = {"name": "sim-uboot", "prompt": cfg["prompt"],
             "boot_timeout": None if cfg["boot_timeout"] is None else cfg["boot_timeout"] / U}
    if cfg["autoboot"]:
        attrs["autoboot_keys"] = cfg["keys"]
    return type("SimUBoot", tuple(bases), attrs)


def run_uboot(case):
    cfg = case["cfg"]
    rng = random.Random(case["seed"])
    clock = sc.VirtualClock()
    sim = UBootBootSim(cfg, rng)
    io = URecIO(sim, clock)
    power = C18.PowerLog(clock)
    res, first, bootlog = None, None, None
    with sc.patched_clock(clock), sc.quiet_log():
        M = mk_uboot(io, cfg, power)
        try:
            with M() as ub:
                res = ["ok", clock.t]
                bootlog = getattr(ub, "bootlog", None)
                nst = len(io.stage_log)
                wl = len(io.wlog)
                try:
                    first = list(ub.exec("echo", "first command"))
                except Exception as e:  # noqa
                    first = ["exc", type(e).__name__]
                io.stage_log = io.stage_log[:nst]
                io.wlog = io.wlog[:wl]
        except TimeoutError as e:
            res = ["timeout", clock.t, str(e)]
        except cc.Blocked:
            res = ["blocked", clock.t]
        except Exception as e:  # noqa
            res = ["exc", clock.t, type(e).__name__, str(e)[:100]]
    case["_stages"] = [[[t, d.hex()] for t, d in st] for st in io.stage_log]
    return [res, [[t, b] for t, b, _ in io.wlog], power.ev, first, bootlog, [[t, b.hex(), C18.seen_summary(s)] for t, b, s in io.wlog], sim.lines]


def ucfg_coq(cfg):
    return (f"(mkU {coq.boolean(cfg['autoboot'])} {coq.nlist(cfg['keys'].encode())} {coq.nlist(cfg['prompt'].encode())} "
            f"{coq.opt(coq.z, cfg['boot_timeout'], 'Z')})")


class UBootSuite(Suite):
    name = "uboot"
    imports = ["Channel", "Hush", "Session", "Boot"]
    model_fn = "uboot_model"
    shard = 200

    def run(self, case):
        return run_uboot(case)

    def coq_input(self, case):
        sts = [[[t, bytes.fromhex(d)] for t, d in st] for st in case["_stages"]]
        return f"({ucfg_coq(case['cfg'])}, 200%nat, {sc.stages_coq(sts)})"

    def obs_term(self, case, obs):
        res = obs[0]
        code = {"ok": [0], "timeout": [1], "blocked": [2, 2]}.get(res[0], [9, res[0]])
        return coq.V([code, res[1], b"".join(b for _, b in obs[1])])

    def oracle(self, case, obs):
        cfg = case["cfg"]
        res, wl, power, first, bootlog, writes, lines = obs
        fails = []
        T = cfg["boot_timeout"]
        poll = 1024       # one iteration of the prompt poll loop: 0.5 s wait + 0.5 s sleep
        if not power or power[0][0] != "on" or power[-1][0] != "off" or len(power) != 2:
            fails.append(f"power sequence {power!r}")
        if T is not None:
            if res[0] == "timeout" and res[1] > T + poll:
                fails.append(f"U-Boot bring-up failed with TimeoutError at t={res[1] / U:.3f}s, later than boot_timeout={T / U:.3f}s plus one polling interval")
            if res[0] == "ok" and res[1] > T + poll:
                fails.append(f"U-Boot bring-up finished at t={res[1] / U:.3f}s although boot_timeout={T / U:.3f}s (+1 s poll) had expired")
            if res[0] == "blocked":
                fails.append(f"U-Boot bring-up waits for ever although boot_timeout={T / U:.3f}s is configured")
        else:
            if res[0] == "timeout":
                fails.append(f"TimeoutError at t={res[1]} although no boot timeout is configured")
            if cfg["stall"] is None and (not cfg["autoboot"] or cfg["countdown"]) and res[0] != "ok":
                # a console that shows everything it is expected to show: bring-up must get through, however the
                # output is cut into pieces
                fails.append(f"the console shows the autoboot prompt and the U-Boot prompt (fragmentation {cfg['frag']!r}) but bring-up ended with {res[:3]!r}; lines received by the console: {lines!r}")
        if res[0] == "exc":
            fails.append(f"bring-up raised {res[2:]!r}")
        # the autoboot keys are sent only after the countdown has been seen
        if cfg["autoboot"]:
            for t, bhex, seen in writes:
                if bytes.fromhex(bhex) == cfg["keys"].encode() and not seen["auto"]:
                    fails.append(f"the autoboot keys were sent at t={t} before any autoboot prompt was received")
                    break
        if res[0] == "ok":
            if first != [0, "first command\n"]:
                fails.append(f"the first command on the U-Boot shell returned {first!r}")
            if bootlog is None or "U-Boot 2024.01" not in bootlog:
                fails.append(f"bootlog does not hold the console output: {bootlog!r:.120}")
        return fails

    def nontrivial(self, case, obs):
        c = case["cfg"]
        return c["stall"] is not None or c["boot_timeout"] is not None or c["need_intr"] > 0 or c["frag"] != "whole"

    def klass(self, case, obs):
        c = case["cfg"]
        return f"{obs[0][0]}:{'auto' if c['autoboot'] else 'noauto'}:{c['stall']}:{c['need_intr']}"

    def finding_key(self, case, obs, failure):
        # a ^C of the prompt poll loop that is answered with a prompt of its own after _init_shell has returned
        if "first command" in failure and obs[0][0] == "ok" and any(b == b"\x03" for _, b in obs[1]):
            return "C18:uboot-poll-intr-extra-prompt"
        return None

    def gen(self, tier, rng):
        for _ in range(1200 if tier == "quick" else 5000):
            autoboot = rng.random() < 0.7
            countdown = autoboot and rng.random() < 0.9
            cfg = {"autoboot": autoboot, "countdown": countdown, "keys": rng.choice(["\r", "\r", " ", "\x7f\x7f\x7f\x7f"]) if autoboot else "",
                   "prompt": rng.choice(["=> ", "U-Boot> ", "# "]), "noise": rng.choice(["", "autoboot in env\r\n", "Net: eth0\r\n"]),
                   "boot_delay": rng.choice([0, 300, 2000]), "d_count": rng.choice([0, 512, 3000]), "d_prompt": rng.choice([0, 100, 700, 2500]),
                   "d_intr": rng.choice([0, 100, 600]), "need_intr": rng.choice([0, 0, 1, 2, 5]) if True else 0,
                   "prompt_at_start": rng.random() < 0.5,
                   "stall": rng.choice([None, None, None, "banner", "key", "intr"]),
                   "frag": rng.choice(["whole", "random", "random", "bytes"]), "gap": rng.choice([0, 0, 64, 400]),
                   "boot_timeout": rng.choice([None, 2048, 5120, 10240])}
            if not autoboot:
                cfg["need_intr"] = rng.choice([0, 1, 3]) if not cfg["prompt_at_start"] else 0
            if cfg["keys"] != "\r" and autoboot:
                # keys that are not Enter: the console reacts to the first key byte like to Enter (simulated as a line)
                cfg["keys"] = "\r"
            if autoboot and rng.random() < 0.15:
                cfg["pre_bl"] = [13, 0x7f, 3]
            hangs = cfg["stall"] is not None or (autoboot and not countdown)
            if cfg["boot_timeout"] is None and hangs:
                cfg["boot_timeout"] = 5120
            yield {"cfg": cfg, "seed": rng.randrange(1 << 30)}


# ------------------------------------------------------------------ the whole chain: board -> U-Boot -> Linux
class FullSim:
    """U-Boot console until the `boot` command, then the Linux console"""

    def __init__(self, ucfg, lcfg, rng):
        self.ub = UBootBootSim(ucfg, rng)
        self.lx = C18.BootSim(dict(lcfg, kmsg=[m.encode() for m in lcfg["kmsg"]], garbage=lcfg["garbage"].encode(),
                                   clutter=lcfg["clutter"].encode()), rng)
        self.phase = "uboot"
        self.boot_at = None
        self.clock = None
        self.lines = []

    def initial(self):
        return self.ub.initial()

    def react(self, line):
        if self.phase == "uboot":
            if self.ub.state == "shell" and line == b"boot":
                self.phase = "linux"
                self.boot_at = self.clock.t
                return [[0, b"boot\r\n## Booting kernel ...\r\n"]] + self.lx.initial()
            return self.ub.react(line)
        return self.lx.react(line)

    def intr(self):
        return self.ub.intr() if self.phase == "uboot" else []


def run_full(case):
    ucfg, lcfg = case["ucfg"], case["cfg"]
    rng = random.Random(case["seed"])
    clock = sc.VirtualClock()
    sim = FullSim(ucfg, lcfg, rng)
    sim.clock = clock
    io = URecIO(sim, clock)
    power = C18.PowerLog(clock)
    res, first, bootlog, ubootlog = None, None, None, None
    with sc.patched_clock(clock), sc.quiet_log():
        class Conn(connector.Connector):
            @contextlib.contextmanager
            def _connect(self):
                yield channel.Channel(io)

            def clone(self):
                raise NotImplementedError()

        class Power(board.PowerControl):
            def poweron(self):
                power.ev.append(["on", clock.t])

            def poweroff(self):
                power.ev.append(["off", clock.t])

        Brd = type("SimBoard", (Conn, Power, board.Board), {"name": "sim-board"})
        ubases = [board.Connector] + ([board.UBootAutobootIntercept] if ucfg["autoboot"] else []) + [board.UBootShell]
        UB = type("SimUB", tuple(ubases), {"name": "sim-ub", "prompt": ucfg["prompt"],
                                           "boot_timeout": None if ucfg["boot_timeout"] is None else ucfg["boot_timeout"] / U})
        lbases = [board.LinuxUbootConnector] + ([board.AskfirstInitializer] if lcfg["askfirst"] else []) + [board.LinuxBootLogin, C18.linux.Bash]
        Lnx = type("SimLnx", tuple(lbases), {"name": "sim-lnx", "uboot": UB, "username": lcfg["user"], "password": lcfg["password"],
                                             "boot_timeout": None if lcfg["boot_timeout"] is None else lcfg["boot_timeout"] / U,
                                             "login_delay": lcfg["login_delay"] / U,
                                             "no_password_timeout": None if lcfg["no_pw_timeout"] is None else lcfg["no_pw_timeout"] / U})
        try:
            with Brd() as b:
                with Lnx(b) as lnx:
                    res = ["ok", clock.t]
                    bootlog = getattr(lnx, "bootlog", None)
                    first = list(lnx.exec("echo", "first command"))
        except TimeoutError as e:
            res = ["timeout", clock.t, str(e)]
        except cc.Blocked:
            res = ["blocked", clock.t]
        except Exception as e:  # noqa
            res = ["exc", clock.t, type(e).__name__, str(e)[:100]]
    return [res, power.ev, first, bootlog, [[t, b.hex(), C18.seen_summary(s)] for t, b, s in io.wlog], sim.boot_at]


class FullStackSuite(Suite):
    """board machine -> U-Boot machine (autoboot intercept, prompt poll) -> `boot` -> LinuxUbootConnector + login + bash"""
    name = "fullstack"
    model_fn = None

    def run(self, case):
        return run_full(case)

    def oracle(self, case, obs):
        res, power, first, bootlog, writes, boot_at = obs
        lcfg = case["cfg"]
        fails = []
        if not power or power[0][0] != "on" or power[-1][0] != "off" or len(power) != 2:
            fails.append(f"power sequence {power!r}")
        user = lcfg["user"].encode() + b"\r"
        pw = (lcfg["password"] or "").encode() + b"\r"
        for t, bhex, seen in writes:
            b = bytes.fromhex(bhex)
            if b == user and not seen["login"]:
                fails.append(f"the user name was sent at t={t} before any login prompt")
            if lcfg["password"] and b == pw and not seen["pw"]:
                fails.append(f"the password was sent at t={t} before any password prompt")
        T = lcfg["boot_timeout"]
        if T is not None and boot_at is not None:
            if res[0] == "timeout" and res[1] > boot_at + T:
                fails.append(f"Linux stage: TimeoutError at t={res[1] / U:.3f}s, boot command at {boot_at / U:.3f}s, boot_timeout {T / U:.3f}s")
            # (the login delay is not waited for when it would end after the deadline: that abort may come early)
            if res[0] == "timeout" and res[1] < boot_at + T and not ("login_delay" in res[2] and res[1] + lcfg["login_delay"] >= boot_at + T):
                # every stage has its own timer: the time the U-Boot stage took must not be charged to the Linux stage
                fails.append(f"Linux stage: TimeoutError at t={res[1] / U:.3f}s although the boot command was sent at {boot_at / U:.3f}s and "
                             f"boot_timeout is {T / U:.3f}s (raised {(boot_at + T - res[1]) / U:.3f}s early)")
            login_done = any(bytes.fromhex(bhex) == user for _, bhex, _ in writes)
            if res[0] == "blocked" and not login_done:
                # (after the login the documented scope of boot_timeout -- reaching the login prompt -- has ended;
                #  the shell initialisation has no deadline of its own)
                fails.append("bring-up waits for ever although a boot timeout is configured")
        if res[0] == "exc":
            fails.append(f"bring-up raised {res[2:]!r}")
        if res[0] == "ok":
            if first != [0, "first command\n"]:
                fails.append(f"the first command on the booted Linux returned {first!r}")
            if bootlog is None or "login: " not in bootlog or "Booting kernel" not in bootlog:
                fails.append(f"the Linux bootlog does not hold the console output from the boot command to the login: {bootlog!r:.160}")
        return fails

    def nontrivial(self, case, obs):
        return True

    def klass(self, case, obs):
        return f"{obs[0][0]}:{'ask' if case['cfg']['askfirst'] else 'plain'}:{case['cfg']['stall']}"

    def finding_key(self, case, obs, failure):
        # answers to the ^C polls of the U-Boot stage that arrive late desynchronise everything after it
        if any(bytes.fromhex(b) == b"\x03" for _, b, _ in obs[4]):
            return "C18:uboot-poll-intr-extra-prompt"
        return None

    def gen(self, tier, rng):
        for _ in range(300 if tier == "quick" else 1500):
            lcfg = C18.rand_cfg(rng, tier)
            lcfg["stall"] = rng.choice([None, None, None, "boot", "password"])
            if lcfg["password"] == "":
                lcfg["password"] = "pw"
            if lcfg["stall"] is not None and lcfg["boot_timeout"] is None:
                lcfg["boot_timeout"] = 5120
            if lcfg["password"] and not lcfg["pw_prompt"] and lcfg["no_pw_timeout"] is None and lcfg["boot_timeout"] is None:
                lcfg["no_pw_timeout"] = 1024
            autoboot = rng.random() < 0.7
            ucfg = {"autoboot": autoboot, "countdown": autoboot, "keys": "\r" if autoboot else "", "prompt": rng.choice(["=> ", "U-Boot> "]),
                    "noise": "", "boot_delay": rng.choice([0, 300]), "d_count": rng.choice([0, 512, 6144]), "d_prompt": rng.choice([0, 100]),
                    "d_intr": 0, "need_intr": 0 if autoboot else rng.choice([1, 2]), "prompt_at_start": False, "stall": None,
                    "frag": lcfg["frag"], "gap": lcfg["gap"], "boot_timeout": rng.choice([None, 20480])}
            yield {"ucfg": ucfg, "cfg": lcfg, "seed": rng.randrange(1 << 30)}


SUITES = [UBootSuite(), FullStackSuite()]
