"""C18, U-Boot stage: UBootAutobootIntercept + UBootShell._init_shell over a reactive scripted console."""
import contextlib
import random

import tbot
import tbot.error
from tbot.machine import board, channel, connector

from vlib import coq
from vlib.framework import Suite
from . import shell_common as sc
from . import chan_common as cc
from . import C18
from . import C19

U = 1024


class UBootBootSim:
    """console of a board in its boot loader: banner, optional autoboot countdown, prompt after a key / ^C"""

    def __init__(self, cfg, rng):
        self.cfg = cfg
        self.rng = rng
        self.state = "count" if cfg["countdown"] else "busy"
        self.intrs = 0
        self.ub = C19.UBootSim(cfg["prompt"].encode())
        self.lines = []

    frag = C18.BootSim.frag

    def initial(self):
        cfg = self.cfg
        out = self.frag(b"\r\nU-Boot 2024.01 (sim)\r\nDRAM:  1 GiB\r\n" + cfg["noise"].encode(), cfg["boot_delay"])
        t = out[-1][0] if out else cfg["boot_delay"]
        if cfg["stall"] == "banner":
            self.state = "dead"
            return out
        if cfg["countdown"]:
            out += self.frag(b"Hit any key to stop autoboot:  3 ", t + cfg["d_count"])
        elif cfg["prompt_at_start"]:
            self.state = "shell"
            out += self.frag(cfg["prompt"].encode(), t + cfg["d_prompt"])
        return out

    def react(self, line):
        cfg = self.cfg
        self.lines.append([self.state, line.hex()])
        if self.state == "count":
            if cfg["stall"] == "key":
                self.state = "dead"
                return []
            self.state = "shell" if cfg["need_intr"] == 0 else "busy"
            if self.state == "shell":
                return self.frag(b"\r\n" + cfg["prompt"].encode(), cfg["d_prompt"])
            return self.frag(b"\r\nbusy...", cfg["d_prompt"])
        if self.state == "shell":
            return [[0, b"".join(self.ub.react(line))]]
        return []

    def intr(self):
        cfg = self.cfg
        self.lines.append([self.state, "03"])
        if self.state == "busy":
            self.intrs += 1
            if self.intrs >= cfg["need_intr"] and cfg["stall"] != "intr":
                self.state = "shell"
                return self.frag(b"<INTERRUPT>\r\n" + cfg["prompt"].encode(), cfg["d_intr"])
            return self.frag(b"^C", 0)
        if self.state == "shell":
            return self.frag(b"<INTERRUPT>\r\n" + cfg["prompt"].encode(), 0)
        return []


class URecIO(C18.RecIO):
    def write(self, buf):
        k = super().write(buf)
        if b"\x03" in bytes(buf):
            self._line = getattr(self, "_line", b"").replace(b"\x03", b"")     # ^C is not part of a command line
            st = self.sim.intr()
            self.stage_log.append([[t, d] for t, d in st])
            now = self.clock.t
            for dt, d in st:
                self.pend.append([now + dt, d])
        return k


def mk_uboot(io, cfg, power):
    class Conn(connector.Connector):
        @contextlib.contextmanager
        def _connect(self):
            yield channel.Channel(io)

        def clone(self):
            raise NotImplementedError()

    class Power(board.PowerControl):
        def poweron(self):
            power.ev.append(["on", power.clock.t])

        def poweroff(self):
            power.ev.append(["off", power.clock.t])

    bases = [Conn, Power]
    if cfg["autoboot"]:
        bases.append(board.UBootAutobootIntercept)
    bases.append(board.UBootShell)
    attrs = {"name": "sim-uboot", "prompt": cfg["prompt"],
             "boot_timeout": None if cfg["boot_timeout"] is None else cfg["boot_timeout"] / U}
    if cfg["autoboot"]:
        attrs["autoboot_keys"] = cfg["keys"]
    return type("SimUBoot", tuple(bases), attrs)


def run_uboot(case):
    cfg = case["cfg"]
    rng = random.Random(case["seed"])
    clock = sc.VirtualClock()
    sim = UBootBootSim(cfg, rng)
    io = URecIO(sim, clock)
    power = C18.PowerLog(clock)
    res, first, bootlog = None, None, None
    with sc.patched_clock(clock), sc.quiet_log():
        M = mk_uboot(io, cfg, power)
        try:
            with M() as ub:
                res = ["ok", clock.t]
                bootlog = getattr(ub, "bootlog", None)
                nst = len(io.stage_log)
                wl = len(io.wlog)
                try:
                    first = list(ub.exec("echo", "first command"))
                except Exception as e:  # noqa
                    first = ["exc", type(e).__name__]
                io.stage_log = io.stage_log[:nst]
                io.wlog = io.wlog[:wl]
        except TimeoutError as e:
            res = ["timeout", clock.t, str(e)]
        except cc.Blocked:
            res = ["blocked", clock.t]
        except Exception as e:  # noqa
            res = ["exc", clock.t, type(e).__name__, str(e)[:100]]
    case["_stages"] = [[[t, d.hex()] for t, d in st] for st in io.stage_log]
    return [res, [[t, b] for t, b, _ in io.wlog], power.ev, first, bootlog, [[t, b.hex(), s.hex()] for t, b, s in io.wlog], sim.lines]


def ucfg_coq(cfg):
    return (f"(mkU {coq.boolean(cfg['autoboot'])} {coq.nlist(cfg['keys'].encode())} {coq.nlist(cfg['prompt'].encode())} "
            f"{coq.opt(coq.z, cfg['boot_timeout'], 'Z')})")


class UBootSuite(Suite):
    name = "uboot"
    imports = ["Channel", "Hush", "Session", "Boot"]
    model_fn = "uboot_model"
    shard = 200

    def run(self, case):
        return run_uboot(case)

    def coq_input(self, case):
        sts = [[[t, bytes.fromhex(d)] for t, d in st] for st in case["_stages"]]
        return f"({ucfg_coq(case['cfg'])}, 200%nat, {sc.stages_coq(sts)})"

    def obs_term(self, case, obs):
        res = obs[0]
        code = {"ok": [0], "timeout": [1], "blocked": [2, 2]}.get(res[0], [9, res[0]])
        return coq.V([code, res[1], b"".join(b for _, b in obs[1])])

    def oracle(self, case, obs):
        cfg = case["cfg"]
        res, wl, power, first, bootlog, writes, lines = obs
        fails = []
        T = cfg["boot_timeout"]
        poll = 1024       # one iteration of the prompt poll loop: 0.5 s wait + 0.5 s sleep
        if not power or power[0][0] != "on" or power[-1][0] != "off" or len(power) != 2:
            fails.append(f"power sequence {power!r}")
        if T is not None:
            if res[0] == "timeout" and res[1] > T + poll:
                fails.append(f"U-Boot bring-up failed with TimeoutError at t={res[1] / U:.3f}s, later than boot_timeout={T / U:.3f}s plus one polling interval")
            if res[0] == "ok" and res[1] > T + poll:
                fails.append(f"U-Boot bring-up finished at t={res[1] / U:.3f}s although boot_timeout={T / U:.3f}s (+1 s poll) had expired")
            if res[0] == "blocked":
                fails.append(f"U-Boot bring-up waits for ever although boot_timeout={T / U:.3f}s is configured")
        else:
            if res[0] == "timeout":
                fails.append(f"TimeoutError at t={res[1]} although no boot timeout is configured")
        if res[0] == "exc":
            fails.append(f"bring-up raised {res[2:]!r}")
        # the autoboot keys are sent only after the countdown has been seen
        if cfg["autoboot"]:
            for t, bhex, seenhex in writes:
                if bytes.fromhex(bhex) == cfg["keys"].encode() and b"autoboot:" not in bytes.fromhex(seenhex):
                    fails.append(f"the autoboot keys were sent at t={t} before any autoboot prompt was received")
                    break
        if res[0] == "ok":
            if first != [0, "first command\n"]:
                fails.append(f"the first command on the U-Boot shell returned {first!r}")
            if bootlog is None or "U-Boot 2024.01" not in bootlog:
                fails.append(f"bootlog does not hold the console output: {bootlog!r:.120}")
        return fails

    def nontrivial(self, case, obs):
        c = case["cfg"]
        return c["stall"] is not None or c["boot_timeout"] is not None or c["need_intr"] > 0 or c["frag"] != "whole"

    def klass(self, case, obs):
        c = case["cfg"]
        return f"{obs[0][0]}:{'auto' if c['autoboot'] else 'noauto'}:{c['stall']}:{c['need_intr']}"

    def finding_key(self, case, obs, failure):
        # a ^C of the prompt poll loop that is answered with a prompt of its own after _init_shell has returned
        if "first command" in failure and obs[0][0] == "ok" and any(b == b"\x03" for _, b in obs[1]):
            return "C18:uboot-poll-intr-extra-prompt"
        return None

    def gen(self, tier, rng):
        for _ in range(1200 if tier == "quick" else 10000):
            autoboot = rng.random() < 0.7
            countdown = autoboot and rng.random() < 0.9
            cfg = {"autoboot": autoboot, "countdown": countdown, "keys": rng.choice(["\r", "\r", " ", "\x7f\x7f\x7f\x7f"]) if autoboot else "",
                   "prompt": rng.choice(["=> ", "U-Boot> ", "# "]), "noise": rng.choice(["", "autoboot in env\r\n", "Net: eth0\r\n"]),
                   "boot_delay": rng.choice([0, 300, 2000]), "d_count": rng.choice([0, 512, 3000]), "d_prompt": rng.choice([0, 100, 700, 2500]),
                   "d_intr": rng.choice([0, 100, 600]), "need_intr": rng.choice([0, 0, 1, 2, 5]) if True else 0,
                   "prompt_at_start": rng.random() < 0.5,
                   "stall": rng.choice([None, None, None, "banner", "key", "intr"]),
                   "frag": rng.choice(["whole", "random", "random", "bytes"]), "gap": rng.choice([0, 0, 64, 400]),
                   "boot_timeout": rng.choice([None, 2048, 5120, 10240])}
            if not autoboot:
                cfg["need_intr"] = rng.choice([0, 1, 3]) if not cfg["prompt_at_start"] else 0
            if cfg["keys"] != "\r" and autoboot:
                # keys that are not Enter: the console reacts to the first key byte like to Enter (simulated as a line)
                cfg["keys"] = "\r"
            hangs = cfg["stall"] is not None or (autoboot and not countdown)
            if cfg["boot_timeout"] is None and hangs:
                cfg["boot_timeout"] = 5120
            yield {"cfg": cfg, "seed": rng.randrange(1 << 30)}


SUITES = [UBootSuite()]
