"""C19 -- U-Boot commands: lossless quoting; output, status and environment parsed exactly."""
import contextlib
import random

import tbot
import tbot.error
from tbot.machine import board, channel, connector

from vlib import coq
from vlib.framework import Suite
from . import shell_common as sc

PROP = "C19"
TRUSTED = [
    "Coq 8.16.1 kernel; vm_compute for correspondence evaluation; no native_compute",
    "model coq/Hush.v: _hush_quote (tied to /repo by correspondence) and U-Boot's classic hush parser transcribed from common/cli_hush.c (parse_stream, b_addqchr, done_word) -- an ENVIRONMENT model: no U-Boot exists in the sandbox; it is cross-checked only against a second, independently written Python transcription (props/C19.py hush_ref)",
    "model coq/Session.v (UBootShell.exec/exec0/env as a composition of coq/Channel.v operations over a staged transport; int() of the status text) hand-written; tie = correspondence with the real UBootShell over a scripted console",
    "the simulated U-Boot console of the harness (echo of every byte, CR echoed as CR LF, output with CR LF line ends, prompt after every command)",
    "the log-event stream attached by exec() is not part of the session model (C08's frame lemmas: attached streams do not influence results)",
]
ASSUMPTIONS = [
    "arguments contain no CR / LF (the console's line editor ends the line there) and no 0x03 / 0x04 (hush's own variable markers); all other bytes U-Boot's black-list lets through are covered",
    "the console reacts to a line only after the line has been sent; within a reaction, fragmentation and delays are arbitrary",
    "an inspection point of read_until_prompt never falls right behind a prompt look-alike inside the output (the stated limitation of sentinel prompts: 'look-alikes not at the end')",
    "classic hush parser (CONFIG_HUSH_OLD_PARSER, U-Boot's default); command-line length limit CONFIG_SYS_CBSIZE not modelled",
]
RULE = ("argument lists over an alphabet of hush-special characters (quotes, backslash, $, ;, &, |, #, blanks, glob characters), safe characters, non-ASCII and the empty string: all lists of total length <= 3 over the special alphabet, random longer ones; "
        "call sequences (exec, exec0, env set / get, crc32 on a '=> ' prompt) against a simulated U-Boot console with outputs containing prompt look-alikes, statuses 0..255 and beyond, "
        "reactions cut at random points, byte by byte, inside CR LF and inside the prompt, with random delays and partial writes; non-trivial = at least one argument needs quoting or a reaction is cut inside the prompt / CR LF; distinct by case hash")

SAFE = "abzAZ09_@%+=:,./-"
SPECIAL = "'\"\\$;&|#* ?[]{}()<>!~`^"
NONASCII = "äß€𝄞\u00a0"
ALPHA = SPECIAL + "a1-" + "ä€"


# ------------------------------------------------------------------ reference hush (second transcription of cli_hush.c)
class HushStop(Exception):
    pass


def hush_ref(line: bytes):
    """words of one simple command, or raise HushStop(kind)"""
    for b in line:
        if b in (10, 13, 3, 4):
            raise HushStop("line-special")
    words, cur, nonnull, dq = [], bytearray(), False, False
    i, n = 0, len(line)

    def addq(ch):
        if dq and ch in b"*?[\\":
            cur.append(92)
        cur.append(ch)

    def done_word():
        nonlocal cur, nonnull
        if len(cur) == 0 and not nonnull:
            return
        out, j = bytearray(), 0
        while j < len(cur):
            if cur[j] == 92:
                j += 1
                if j >= len(cur):
                    break
            out.append(cur[j])
            j += 1
        words.append(bytes(out))
        cur, nonnull = bytearray(), False

    while i < n:
        ch = line[i]
        i += 1
        always_special = ch in b"\\$'\""
        flow = ch in b";&|#"
        ifs = ch in b" \t\n"
        if not always_special and (not (flow or ifs) or dq):
            addq(ch)
            continue
        if ifs:
            done_word()
            continue
        if ch == 35:   # '#'
            if len(cur) == 0 and not dq:
                raise HushStop("comment")
            addq(ch)
        elif ch == 92:
            if i >= n:
                raise HushStop("syntax")
            addq(92)
            addq(line[i])
            i += 1
        elif ch == 36:
            raise HushStop("expansion")
        elif ch == 39:
            nonnull = True
            while True:
                if i >= n:
                    raise HushStop("syntax")
                c2 = line[i]
                i += 1
                if c2 == 39:
                    break
                cur.append(c2)
        elif ch == 34:
            nonnull = True
            dq = not dq
        else:
            raise HushStop("separator")
    if dq:
        raise HushStop("syntax")
    done_word()
    return words


# ------------------------------------------------------------------ simulated console
class UBootSim:
    def __init__(self, prompt: bytes):
        self.prompt = prompt
        self.env = {}
        self.status = 0
        self.argvs = []          # argv of every command run (None: the line was not a simple command)
        self.plan = []           # per command: (status, output) chosen by the test for the `run` command

    def execute(self, line: bytes):
        """-> output bytes with LF line ends"""
        if line == b"echo $?":
            out = b"%d\n" % self.status
            self.status = 0
            return out
        try:
            argv = hush_ref(line)
        except HushStop as e:
            self.argvs.append(None)
            self.status = 1
            return b"syntax error (" + str(e).encode() + b")\n"
        self.argvs.append(argv)
        if not argv:
            return b""
        cmd = argv[0]
        if cmd == b"setenv":
            if len(argv) >= 3:
                self.env[argv[1]] = b" ".join(argv[2:])
            elif len(argv) == 2:
                self.env.pop(argv[1], None)
            self.status = 0
            return b""
        if cmd == b"printenv":
            if len(argv) == 2 and argv[1] in self.env:
                self.status = 0
                return argv[1] + b"=" + self.env[argv[1]] + b"\n"
            self.status = 1
            return b'## Error: "' + (argv[1] if len(argv) > 1 else b"") + b'" not defined\n'
        if cmd == b"echo":
            self.status = 0
            return b" ".join(argv[1:]) + b"\n"
        if cmd in (b"run", b"crc32"):
            st, out = self.plan.pop(0) if self.plan else (0, b"")
            self.status = st
            return out
        self.status = 1
        return b"Unknown command '" + cmd + b"' - try 'help'\n"

    def react(self, line: bytes):
        """console bytes in reaction to line + CR: (echo, output, prompt)"""
        echo = line + b"\r\n"
        out = self.execute(line).replace(b"\n", b"\r\n")
        return echo, out, self.prompt


def mk_ub(io, prompt):
    class UB(connector.Connector, board.UBootShell):
        name = "ub-sim"

        @contextlib.contextmanager
        def _connect(self):
            yield channel.Channel(io)

        def clone(self):
            raise NotImplementedError()
    UB.prompt = prompt
    return UB


def call_lines(ub, call):
    """the command lines a call is expected to send (computed with the machine's own escape())"""
    kind = call[0]
    if kind in ("exec", "exec0", "test"):
        return [ub.escape(*call[1]).encode("utf-8"), b"echo $?"]
    if kind == "env":
        lines = []
        if call[2] is not None:
            lines += [ub.escape("setenv", call[1], call[2]).encode("utf-8"), b"echo $?"]
        return lines + [ub.escape("printenv", call[1]).encode("utf-8"), b"echo $?"]
    raise ValueError(kind)


def run_calls(case):
    """case: prompt(hex), accept, calls [[kind, ...]], plan [[status, hex]], seed, frag, maxgap"""
    prompt = bytes.fromhex(case["prompt"])
    rng = random.Random(case["seed"])
    clock = sc.VirtualClock()
    sim = UBootSim(prompt)
    sim.plan = [(st, bytes.fromhex(o)) for st, o in case["plan"]]
    io = sc.StageIO([], case["accept"], clock, initial=[[0, prompt]])
    UB = mk_ub(io, prompt)
    results, all_stages, siminfo = [], [], []

    with sc.patched_clock(clock), sc.quiet_log():
        with UB() as ub:
            for call in case["calls"]:
                kind = call[0]
                crc = kind != "env" and call[1] and call[1][0] == "crc32" and prompt == b"=> "
                stages, info = [], []
                for j, line in enumerate(call_lines(ub, call)):
                    nargv = len(sim.argvs)
                    echo, out, pr = sim.react(line)
                    data = echo + out + pr
                    pieces = sc.fragment(rng, data, len(echo), pr, one_byte=(case["frag"] == "bytes"),
                                         maxpieces=(1 if case["frag"] == "whole" else 8), lookalike_ok=(crc and j == 0))
                    stages.append(sc.timed_stage(rng, pieces, maxgap=case.get("maxgap", 0)))
                    argv = sim.argvs[nargv] if len(sim.argvs) > nargv else "n/a"
                    info.append([line.hex(), out.hex(), sim.status,
                                 argv if argv in (None, "n/a") else [a.hex() for a in argv]])
                io.stages = [[[t, bytes(d)] for t, d in st] for st in stages]
                io.armed = True
                try:
                    if kind == "exec":
                        rc, out = ub.exec(*call[1])
                        results.append([0, rc, out])
                    elif kind == "exec0":
                        results.append([0, ub.exec0(*call[1])])
                    elif kind == "test":
                        results.append([0, 1 if ub.test(*call[1]) else 0])
                    else:
                        results.append([0, ub.env(call[1], call[2])])
                except tbot.error.CommandFailure:
                    results.append([1])
                except tbot.error.InvalidRetcodeError as e:
                    r = [1, e.retcode_str]
                    results.append(r if kind == "exec" else [2, r])
                except Exception as e:  # noqa
                    r = [2, sc.exc_kind(e)]
                    results.append(r if kind == "exec" else [2, r])
                all_stages.append([[[t, d.hex()] for t, d in st] for st in stages])
                siminfo.append(info)
            written = bytes(io.written)
            unread = io.unread()
            io.pend = []
    case["_stages"] = all_stages
    return [results, written, unread, siminfo]


def call_coq(call, stages):
    kind = call[0]
    strs = lambda l: coq.lst(sc.codepoints, l, "(list N)")  # noqa: E731
    if kind == "exec":
        k = f"UExec {strs(call[1])}"
    elif kind == "exec0":
        k = f"UExec0 {strs(call[1])}"
    elif kind == "test":
        k = f"UTest {strs(call[1])}"
    else:
        v = "None" if call[2] is None else f"(Some {sc.codepoints(call[2])})"
        k = f"UEnv {sc.codepoints(call[1])} {v}"
    sts = [[[t, bytes.fromhex(d)] for t, d in st] for st in stages]
    return f"({k}, {sc.stages_coq(sts)})"


class ExecSuite(Suite):
    name = "exec"
    imports = ["Channel", "Hush", "Session"]
    model_fn = "ub_model"
    shard = 150

    def run(self, case):
        return run_calls(case)

    def coq_input(self, case):
        calls = coq.lst(lambda cs: call_coq(*cs), list(zip(case["calls"], case["_stages"])), "(ub_call * list stage)")
        return f"({coq.nlist(bytes.fromhex(case['prompt']))}, {coq.natlist(case['accept'])}, {calls})"

    def obs_term(self, case, obs):
        return coq.V(obs[:3])

    # ---- the property, stated on what the real UBootShell returned against the simulated console
    def oracle(self, case, obs):
        fails = []
        results, written, unread, siminfo = obs
        sent = b""
        for call, res, info in zip(case["calls"], results, siminfo):
            kind = call[0]
            legal = all(ord(c) >= 32 and ord(c) != 127 for a in (call[1] if kind != "env" else [call[1], call[2] or ""]) for c in a)
            if not legal:
                continue     # outside the quantifier (control characters): only the model comparison applies
            for line_hex, _, _, _ in info:
                sent += bytes.fromhex(line_hex) + b"\r"
            first = info[0]
            out_txt = sc.py_text(bytes.fromhex(first[1]))
            if kind in ("exec", "exec0", "test"):
                want_argv = [a.encode("utf-8").hex() for a in call[1]]
                if first[3] != want_argv:
                    fails.append(f"hush received argv {first[3]} for arguments {call[1]!r}")
                if kind == "exec":
                    if res != [0, first[2], out_txt]:
                        fails.append(f"exec{tuple(call[1])!r} returned {res!r}, console gave status {first[2]} output {out_txt!r}")
                elif kind == "test":
                    if res != [0, 1 if first[2] == 0 else 0]:
                        fails.append(f"test{tuple(call[1])!r} returned {res!r}, console gave status {first[2]}")
                else:
                    want = [0, out_txt] if first[2] == 0 else [1]
                    if res != want:
                        fails.append(f"exec0{tuple(call[1])!r} gave {res!r}, expected {want!r}")
            else:
                var, value = call[1], call[2]
                if value is not None:
                    if info[0][3] != [b"setenv".hex(), var.encode().hex(), value.encode().hex()]:
                        fails.append(f"setenv received argv {info[0][3]} for ({var!r}, {value!r})")
                    if info[0][2] == 0 and res != [0, value]:
                        fails.append(f"env({var!r}, {value!r}) returned {res!r}")
                else:
                    pinfo = info[0]
                    if pinfo[2] == 0:
                        val = bytes.fromhex(pinfo[1])[len(var.encode()) + 1:-2].decode("utf-8", "replace")
                        if res != [0, val]:
                            fails.append(f"env({var!r}) returned {res!r}, variable holds {val!r}")
                    elif res != [1]:
                        fails.append(f"env({var!r}) of an undefined variable gave {res!r}")
        if not fails:
            if unread:
                fails.append(f"console output left unread after the calls: {unread!r}")
            all_legal = all(all(ord(c) >= 32 and ord(c) != 127 for a in (call[1] if call[0] != "env" else [call[1], call[2] or ""]) for c in a)
                            for call in case["calls"])
            if all_legal and all(r[0] in (0, 1) and len(r) <= 3 for r in results) and written != sent:
                fails.append(f"the console received {written!r}; the calls {case['calls']!r} amount to the command lines {sent!r}")
        return fails

    def nontrivial(self, case, obs):
        return any(any(c in SPECIAL or ord(c) > 127 for a in (call[1] if call[0] != "env" else [call[1], call[2] or ""]) for c in a)
                   for call in case["calls"]) or case["frag"] != "whole"

    def klass(self, case, obs):
        return case["frag"] + ":" + "+".join(sorted({c[0] for c in case["calls"]}))

    def finding_key(self, case, obs, failure):
        return None

    def gen(self, tier, rng):
        n = 900 if tier == "quick" else 6000
        prompts = [b"=> ", b"U-Boot> ", b"=> ", b"# "]
        for i in range(n):
            prompt = rng.choice(prompts)
            calls, plan = [], []
            for _ in range(rng.randint(1, 4)):
                k = rng.random()
                if k < 0.45:
                    args = [rng.choice(["run", "run", "echo", "crc32", "bogus"])] + [rand_arg(rng) for _ in range(rng.randint(0, 3))]
                    calls.append([rng.choice(["exec", "exec", "exec0", "test"]), args])
                    if args[0] in ("run", "crc32"):
                        plan.append([rand_status(rng), rand_output(rng, prompt, crc=(args[0] == "crc32")).hex()])
                elif k < 0.8:
                    nm = rand_name(rng)
                    calls.append(["env", nm, rand_arg(rng, nonempty=True)])
                    if rng.random() < 0.2:
                        calls.append(["env", nm, ""])          # the empty value is a value too: it replaces the old one
                else:
                    calls.append(["env", rand_name(rng), None])
            yield {"prompt": prompt.hex(), "accept": [rng.randint(1, 600) for _ in range(rng.randint(0, 3))],
                   "calls": calls, "plan": plan, "seed": rng.randrange(1 << 30),
                   "frag": rng.choice(["whole", "random", "random", "bytes"]), "maxgap": rng.choice([0, 0, 512, 4096])}


def rand_arg(rng, nonempty=False):
    k = rng.random()
    if k < 0.08 and not nonempty:
        return ""
    if k < 0.25:
        return "".join(rng.choice(SAFE) for _ in range(rng.randint(1, 6)))
    if k < 0.3:
        return "".join(rng.choice(SAFE + SPECIAL) for _ in range(rng.randint(500, 700)))   # crosses a 512-byte send slice
    return "".join(rng.choice(ALPHA if rng.random() < 0.8 else NONASCII + SAFE) for _ in range(rng.randint(1, 8)))


def rand_name(rng):
    return rng.choice(["foo", "bootargs", "a", "v_1", "x.y"])


def rand_status(rng):
    return rng.choice([0, 0, 1, 1, 2, 127, 255, 256, -1])


def rand_output(rng, prompt, crc=False):
    if crc:
        return b"crc32 for 00000000 ... 000000ff ==> %08x\n" % rng.randrange(1 << 32)
    lines = []
    for _ in range(rng.randint(0, 4)):
        k = rng.random()
        if k < 0.2:
            lines.append(prompt + b"not the end")           # a prompt look-alike inside the output
        elif k < 0.3:
            lines.append(b"x" + prompt.rstrip())
        elif k < 0.4:
            lines.append("grüße €".encode())
        elif k < 0.45:
            lines.append(b"y" * rng.randint(4000, 4200))
        elif k < 0.55:
            # a progress display that rewrites its line: carriage returns that are not part of a line end
            n = rng.randint(1, 4)
            lines.append(b"\r".join(b"Loading: " + b"#" * i for i in range(1, n + 1)) + (b"\r" if rng.random() < 0.5 else b""))
        else:
            lines.append(bytes(rng.choice(b"abc =>#$'\\\"0") for _ in range(rng.randint(0, 12))))
    out = b"\n".join(lines)
    if lines and rng.random() < 0.85:
        out += b"\n"
    return out


class QuoteSuite(Suite):
    """_hush_quote against the model, and the model's hush against the reference transcription"""
    name = "quote"
    imports = ["Hush"]
    model_fn = "quote_model"
    shard = 500

    def run(self, case):
        args = case["args"]
        esc = board.UBootShell.escape(None, *args)
        try:
            words = [[w for w in hush_ref(esc.encode("utf-8"))]]
        except HushStop:
            words = []
        return [esc, words]

    def coq_input(self, case):
        return coq.lst(sc.codepoints, case["args"], "(list N)")

    def oracle(self, case, obs):
        want = [[a.encode("utf-8") for a in case["args"]]]
        if any(c in "\r\n\x03\x04" for a in case["args"] for c in a):
            return []
        if obs[1] != want:
            return [f"arguments {case['args']!r} are sent as {obs[0]!r}, which hush reads as {obs[1]!r}"]
        return []

    def nontrivial(self, case, obs):
        return any(c not in SAFE for a in case["args"] for c in a) or "" in case["args"]

    def klass(self, case, obs):
        return "n=%d" % len(case["args"])

    def gen(self, tier, rng):
        import itertools
        alpha = "'\"\\$;&|# a" if tier == "quick" else "'\"\\$;&|# a*?[-ä"
        for n in range(0, 4):
            for t in itertools.product(alpha, repeat=n):
                s = "".join(t)
                yield {"args": [s]}
                for cut in range(1, n):
                    yield {"args": [s[:cut], s[cut:]]}
        for a in ["", "if", "a=b", "#x", "x#", "\\", "\\\\", "'", "''", "\"\"", "$a", "${a}", "a;b", "\t", "\x7f", "\x01", "a\nb", "a\rb"]:
            yield {"args": ["echo", a]}
            yield {"args": [a, a]}
        for _ in range(600 if tier == "quick" else 6000):
            yield {"args": [rand_arg(rng) for _ in range(rng.randint(1, 4))]}


class HushSuite(Suite):
    """the model's hush against the reference transcription on arbitrary lines (validation of the environment model)"""
    name = "hush"
    imports = ["Hush"]
    model_fn = "hush_model"
    shard = 500

    def run(self, case):
        try:
            return [[w for w in hush_ref(bytes.fromhex(case["line"]))]]
        except HushStop:
            return []

    def coq_input(self, case):
        return coq.nlist(bytes.fromhex(case["line"]))

    def klass(self, case, obs):
        return "words" if obs else "stop"

    def gen(self, tier, rng):
        import itertools
        alpha = b"'\"\\$;# a*"
        for n in range(0, 5 if tier == "quick" else 6):
            for t in itertools.product(alpha, repeat=n):
                yield {"line": bytes(t).hex()}
        for _ in range(500 if tier == "quick" else 5000):
            yield {"line": bytes(rng.choice(b"'\"\\$;&|# ab*?[\t\n\r\x03\xc3\xa4") for _ in range(rng.randint(0, 14))).hex()}


SUITES = [QuoteSuite(), HushSuite(), ExecSuite()]


def extra_obligations(tier):
    """the translated part of the model: regenerated from the current source and re-proved equal to what the theorems use"""
    from vlib import gen
    return gen.obligations(only=["gen_hush_quote_is_the_model", "gen_board_constants_are_the_model", "gen_status_command_is_the_model", "gen_ub_env_is_the_model", "gen_exec0_and_test_are_the_model"])
