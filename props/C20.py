"""C20 -- ssh and scp are invoked with exactly the machine's configured parameters."""
import contextlib
import itertools
import pathlib
import sys
import types

if "paramiko" not in sys.modules:
    try:
        import paramiko  # noqa: F401
    except ImportError:
        # paramiko is not installed in this sandbox: a stub module makes tbot define ParamikoConnector, whose
        # *connection* code is never run here (only its configuration properties and linux.copy's dispatch are)
        _stub = types.ModuleType("paramiko")
        for _n in ("SSHClient", "Channel", "AutoAddPolicy", "RejectPolicy", "Transport"):
            setattr(_stub, _n, type(_n, (), {}))
        sys.modules["paramiko"] = _stub

import tbot  # noqa: E402
import tbot.error  # noqa: E402
from tbot.machine import connector, linux  # noqa: E402
from tbot.machine.linux import auth, copy as tcopy  # noqa: E402
import tbot.machine.connector.paramiko as _pk  # noqa: E402,F401

from vlib import coq  # noqa: E402
from vlib.framework import Suite  # noqa: E402

PROP = "C20"
TRUSTED = [
    "Coq 8.16.1 kernel; vm_compute for correspondence evaluation; no native_compute",
    "model coq/SshScp.v (ssh_argv, scp_argv, copy_model) hand-written from connector/ssh.py, linux/copy.py, linux/auth.py; tie = correspondence with recording lab-host stand-ins over the full configuration grid",
    "paramiko is not installed in the sandbox: a stub module lets tbot define ParamikoConnector; only its configuration properties and copy()'s dispatch are exercised, never its connection code",
    "the meaning of ssh/scp options themselves (OpenSSH) is not modelled",
]
ASSUMPTIONS = [
    "distinct machines are instances of distinct classes (linux.copy decides 'same host' by class)",
    "positional arguments (paths, user@host) do not start with '-'",
]
RULE = ("the full grid port x user x host x ignore_hostkey x ssh_config lists x authenticator kinds (none / key as str, pathlib, tbot Path / password) x multiplexing "
        "x copy direction x host pairing (same host, ssh machine <-> its jump host, ssh or paramiko-style machine <-> unrelated local host, two remote hosts, remote <-> foreign lab); "
        "non-trivial = a non-default value in at least two parameters; distinct by case hash")

WD = "/wd"
MUXDIR = WD + "/.ssh-multi"


class Rec:
    def __init__(self):
        self.calls = []


class _RecHost(connector.SubprocessConnector, linux.Bash):
    """a lab-host / local-host stand-in that records what it is asked to run instead of running it"""
    rec = None
    name = "rec"

    def __enter__(self):
        return self

    def __exit__(self, *a):
        return None

    def clone(self):
        return self

    @property
    def workdir(self):
        return linux.Path(self, WD)

    def _flat(self, args):
        out = []
        for a in args:
            out.append(a.at_host(self) if isinstance(a, linux.Path) else a)
        return out

    def exec0(self, *args):
        self.rec.calls.append(["exec0", self.hid, self._flat(args)])
        return ""

    def open_channel(self, *args):
        self.rec.calls.append(["open_channel", self.hid, self._flat(args)])
        return contextlib.nullcontext(object())


def mk_rec_host(hid, rec):
    cls = type(f"RecHost{hid}", (_RecHost,), {"hid": hid, "name": f"host{hid}"})
    h = cls()
    h.rec = rec
    return h


def mk_auth(spec, keyhost):
    k = spec[0]
    if k == "none":
        return auth.NoneAuthenticator()
    if k == "key_str":
        return auth.PrivateKeyAuthenticator(spec[1])
    if k == "key_pathlib":
        return auth.PrivateKeyAuthenticator(pathlib.PurePosixPath(spec[1]))
    if k == "key_tbot":
        return auth.PrivateKeyAuthenticator(linux.Path(keyhost, spec[1]))
    if k == "pass":
        return auth.PasswordAuthenticator(spec[1])
    raise ValueError(spec)


def mk_ssh(cfg, jump, keyhost, idx):
    props = {
        "name": f"ssh{idx}",
        "hostname": property(lambda self: cfg["host"]),
        "username": property(lambda self: cfg["user"]),
        "port": property(lambda self: cfg["port"]),
        "ignore_hostkey": property(lambda self: cfg["ign"]),
        "ssh_config": (list(cfg["opts"]) if cfg.get("_attr") else property(lambda self: list(cfg["opts"]))),
        "use_multiplexing": property(lambda self: cfg["mux"]),
        "authenticator": property(lambda self: mk_auth(cfg["auth"], keyhost)),
    }
    cls = type(f"Ssh{idx}", (connector.SSHConnector, linux.Bash), props)
    return cls(jump)


def mk_paramiko(cfg, keyhost, idx):
    props = {
        "name": f"pk{idx}",
        "hostname": property(lambda self: cfg["host"]),
        "username": property(lambda self: cfg["user"]),
        "port": property(lambda self: cfg["port"]),
        "ignore_hostkey": property(lambda self: cfg["ign"]),
        "authenticator": property(lambda self: mk_auth(cfg["auth"], keyhost)),
    }
    cls = type(f"Pk{idx}", (connector.ParamikoConnector, linux.Bash), props)
    return cls()


def s2l(s):
    return coq.nlist(ord(c) for c in s)


def cfg_coq(cfg, kind="ssh"):
    a = cfg["auth"]
    if a[0] == "none":
        au = "ANone"
    elif a[0] == "pass":
        au = f"(APass {s2l(a[1])})"
    else:
        au = f"(AKey {s2l(a[1])})"
    opts = cfg["opts"] if kind == "ssh" else []
    mux = cfg["mux"] if kind == "ssh" else False
    return (f"(mkCfg {s2l(str(cfg['port']))} {s2l(cfg['user'])} {s2l(cfg['host'])} {coq.boolean(cfg['ign'])} "
            f"{coq.lst(s2l, opts, '(list N)')} {au} {coq.boolean(mux)})")


DEFAULT_CFG = {"port": 22, "user": "u", "host": "h", "ign": False, "opts": [], "auth": ["none"], "mux": False}


def grid(rng, thorough):
    ports = [22, 2222]
    users = ["root", "u ser"]
    hosts_ = ["example.org", "10.0.0.7"]
    igns = [False, True]
    optss = [[], ["X=y"], ["ProxyJump=gw", "StrictHostKeyChecking=no"], ["BatchMode=yes", "A=b c"],
             ["SendEnv=LANG", "ConnectTimeout=5", "SendEnv=TBOT_*"]]          # the same keyword twice: both entries go out
    # (keys spelt with `~` or relative: the text goes to ssh / scp as configured, whoever expands it is the host that runs ssh)
    auths = [["none"], ["key_str", "/k/id_a"], ["key_pathlib", "/k/id_b"], ["key_tbot", "/k/id_c"], ["pass", "s3cr et"],
             ["key_pathlib", "~/.ssh/id_d"], ["key_str", "~/.ssh/id e"], ["key_pathlib", "keys/id_f"]]
    muxs = [False, True]
    allc = list(itertools.product(ports, users, hosts_, igns, optss, auths, muxs))
    if not thorough:
        allc = rng.sample(allc, len(allc) // 3)      # a random third (strides would alias with the last dimensions)
    for port, user, host, ign, opts, au, mux in allc:
        yield {"port": port, "user": user, "host": host, "ign": ign, "opts": opts, "auth": au, "mux": mux}


class SshSuite(Suite):
    name = "ssh"
    imports = ["SshScp"]
    model_fn = "ssh_model"
    shard = 400

    def gen(self, tier, rng):
        for cfg in grid(rng, tier == "thorough"):
            yield {"cfg": cfg}

    def coq_input(self, case):
        return f"({cfg_coq(case['cfg'])}, {s2l(MUXDIR)})"

    def run(self, case):
        rec = Rec()
        lab = mk_rec_host(0, rec)
        m = mk_ssh(case["cfg"], lab, lab, 1)
        with m._connect():
            pass
        oc = [c for c in rec.calls if c[0] == "open_channel"]
        assert len(oc) == 1
        self._last_calls = rec.calls
        return oc[0][2]

    def oracle(self, case, obs):
        return check_params(obs, case["cfg"], "ssh", has_opts=True, has_mux=True)

    def nontrivial(self, case, obs):
        c = case["cfg"]
        return sum([c["port"] != 22, c["ign"], bool(c["opts"]), c["auth"] != ["none"], c["mux"]]) >= 2

    def klass(self, case, obs):
        return case["cfg"]["auth"][0]


def parse_cmdline(argv):
    """independent reader of an ssh/scp command line"""
    argv = list(argv)
    out = {"pass": None, "prog": None, "port": None, "ident": None, "oopts": [], "pos": []}
    if argv[:1] == ["sshpass"]:
        assert argv[1] == "-p"
        out["pass"] = argv[2]
        argv = argv[3:]
    out["prog"] = argv[0]
    i = 1
    portflag = "-P" if out["prog"] == "scp" else "-p"
    while i < len(argv):
        a = argv[i]
        if a == "-o":
            out["oopts"].append(argv[i + 1]); i += 2
        elif a == portflag:
            out["port"] = argv[i + 1]; i += 2
        elif a == "-i":
            out["ident"] = argv[i + 1]; i += 2
        else:
            out["pos"] = argv[i:]
            break
    return out


def check_params(argv, cfg, prog, has_opts, has_mux, direction=None, lpath=None, rpath=None):
    fails = []
    try:
        p = parse_cmdline(argv)
    except Exception as e:  # noqa
        return [f"unreadable command line {argv!r}: {e}"]
    if p["prog"] != prog:
        fails.append(f"program is {p['prog']!r}, expected {prog}")
    if p["port"] != str(cfg["port"]):
        fails.append(f"port {p['port']!r} != configured {cfg['port']}")
    a = cfg["auth"]
    want_pass = a[1] if a[0] == "pass" else None
    want_ident = a[1] if a[0].startswith("key") else None
    if p["pass"] != want_pass:
        fails.append(f"sshpass password {p['pass']!r} != configured {want_pass!r}")
    if p["ident"] != want_ident:
        fails.append(f"identity file {p['ident']!r} != configured {want_ident!r}")
    want = []
    if a[0] != "pass":
        want.append("BatchMode=yes")
    if cfg["ign"]:
        want.append("StrictHostKeyChecking=no")
    if has_mux and cfg["mux"]:
        want += ["ControlMaster=auto", "ControlPersist=10m", f"ControlPath={MUXDIR}/%C"]
    if has_opts:
        want += list(cfg["opts"])
    if sorted(p["oopts"]) != sorted(want):
        fails.append(f"-o options {p['oopts']!r} are not exactly the machine's ({want!r}: batch mode unless a password is used, "
                     f"host-key checking off only if configured, multiplexing only if enabled, every extra ssh option)")
    if has_opts:
        extra = [o for o in p["oopts"] if o in cfg["opts"]]
        if extra != [o for o in cfg["opts"]] and sorted(extra) == sorted(cfg["opts"]) and len(set(cfg["opts"])) == len(cfg["opts"]):
            fails.append(f"extra ssh options out of order: {extra!r} vs {cfg['opts']!r}")
    dest = f"{cfg['user']}@{cfg['host']}"
    if prog == "ssh":
        if p["pos"] != [dest]:
            fails.append(f"destination {p['pos']!r} != [{dest!r}]")
    else:
        rd = f"{dest}:{rpath}"
        wantpos = [lpath, rd] if direction == "to_remote" else [rd, lpath]
        if p["pos"] != wantpos:
            fails.append(f"scp operands {p['pos']!r} != {wantpos!r}")
    return fails


class CopySuite(Suite):
    """linux.copy.copy() over all host pairings and both directions"""
    name = "copy"
    imports = ["SshScp"]
    model_fn = "copy_case_model"
    shard = 300

    PAIRINGS = ["same", "ssh-jump", "ssh-local", "paramiko-local", "two-remotes", "ssh-foreignlab", "paramiko-lab"]

    def gen(self, tier, rng):
        thorough = tier == "thorough"
        cfgs = list(grid(rng, thorough))
        if not thorough:
            cfgs = rng.sample(cfgs, len(cfgs) // 2)
        for cfg in cfgs:
            for pairing in self.PAIRINGS:
                for direction in ("to_remote", "from_remote"):
                    yield {"cfg": cfg, "pairing": pairing, "dir": direction}
        # histories: the same machines are used for several transfers in a row (and ssh_config is a plain class
        # attribute list, as the documentation shows); every transfer must look like the first
        for cfg in rng.sample(cfgs, min(len(cfgs), 60 if not thorough else 200)):
            for pairing in ("ssh-jump", "ssh-local"):
                for direction in ("to_remote", "from_remote"):
                    yield {"cfg": cfg, "pairing": pairing, "dir": direction, "repeat": rng.randint(2, 3)}

    def _setup(self, case):
        rec = Rec()
        cfg = dict(case["cfg"])
        if case.get("repeat"):
            cfg["_attr"] = True
        lab = mk_rec_host(0, rec)       # jump host of the ssh machine
        local = mk_rec_host(1, rec)     # an unrelated local host
        pairing = case["pairing"]
        ids = {}
        if pairing == "same":
            a, b = lab, lab
            kinds = ("KLocal", "KLocal")
        elif pairing == "ssh-jump":
            a, b = lab, mk_ssh(cfg, lab, lab, 2)
            kinds = ("KLocal", "KSsh")
        elif pairing == "ssh-local":
            a, b = local, mk_ssh(cfg, lab, local, 2)
            kinds = ("KLocal", "KSsh")
        elif pairing == "paramiko-local":
            a, b = local, mk_paramiko(cfg, local, 2)
            kinds = ("KLocal", "KParamiko")
        elif pairing == "two-remotes":
            a, b = mk_ssh(dict(DEFAULT_CFG), lab, lab, 3), mk_ssh(cfg, lab, lab, 2)
            kinds = ("KSsh", "KSsh")
        elif pairing == "ssh-foreignlab":
            # an ssh machine reached via `lab`, paired with a machine that is neither local-subprocess-like nor its jump host
            a, b = mk_paramiko(dict(DEFAULT_CFG), lab, 3), mk_ssh(cfg, lab, lab, 2)
            kinds = ("KParamiko", "KSsh")
        elif pairing == "paramiko-lab":
            a, b = mk_paramiko(dict(DEFAULT_CFG), lab, 3), mk_paramiko(cfg, lab, 2)
            kinds = ("KParamiko", "KParamiko")
        else:
            raise ValueError(pairing)
        return rec, lab, local, a, b, kinds

    def _hid(self, h):
        return getattr(h, "hid", None)

    def coq_input(self, case):
        rec, lab, local, a, b, kinds = self._setup(case)
        cfg = case["cfg"]

        def host_coq(h, kind, is_b):
            hid = {id(lab): 0, id(local): 1}.get(id(h), 2 if is_b else 3)
            cls = hid           # one class per machine
            c = cfg if is_b and kind in ("KSsh", "KParamiko") else DEFAULT_CFG
            jump = 0 if kind == "KSsh" else 99
            return f"(mkHost {hid}%nat {cls}%nat {kind} {cfg_coq(c, 'ssh' if kind == 'KSsh' else 'pk')} {jump}%nat)"
        ha, hb = host_coq(a, kinds[0], False), host_coq(b, kinds[1], True)
        if case["dir"] == "to_remote":
            h1, h2, p1, p2 = ha, hb, "/src/file", "/dst/file"
        else:
            h1, h2, p1, p2 = hb, ha, "/src/file", "/dst/file"
        return f"({s2l(MUXDIR)}, {h1}, {h2}, {s2l(p1)}, {s2l(p2)})"

    def run(self, case):
        rec, lab, local, a, b, kinds = self._setup(case)
        if case["dir"] == "to_remote":
            p1, p2 = linux.Path(a, "/src/file"), linux.Path(b, "/dst/file")
        else:
            p1, p2 = linux.Path(b, "/src/file"), linux.Path(a, "/dst/file")
        n = case.get("repeat", 1)
        try:
            for _ in range(n):
                tcopy(p1, p2)
        except NotImplementedError:
            return [2]
        except Exception as e:  # noqa
            return [98, type(e).__name__ + ": " + str(e)[:80]]
        ex = [c for c in rec.calls if c[0] == "exec0"]
        if len(ex) != n:
            return [97, len(ex)]
        _, hid, args = ex[-1]        # the LAST transfer of the history
        if args[0] == "cp":
            return [0, hid]
        return [1, hid, args]

    def oracle(self, case, obs):
        pairing, direction, cfg = case["pairing"], case["dir"], case["cfg"]
        if pairing == "same":
            return [] if obs == [0, 0] else [f"same-host copy produced {obs!r}"]
        if pairing in ("two-remotes", "ssh-foreignlab", "paramiko-lab"):
            return [] if obs == [2] else [f"unsupported pairing {pairing} did not raise NotImplementedError: {obs!r}"]
        if obs[0] != 1:
            return [f"{pairing}/{direction}: expected an scp invocation, got {obs!r}"]
        want_local = 0 if pairing == "ssh-jump" else 1
        fails = []
        if obs[1] != want_local:
            fails.append(f"scp was run on host {obs[1]}, expected the local side {want_local}")
        is_ssh = pairing.startswith("ssh")
        lpath, rpath = ("/src/file", "/dst/file") if direction == "to_remote" else ("/dst/file", "/src/file")
        fails += check_params(obs[2], cfg, "scp", has_opts=is_ssh, has_mux=is_ssh, direction=direction, lpath=lpath, rpath=rpath)
        return fails

    def nontrivial(self, case, obs):
        c = case["cfg"]
        return sum([c["port"] != 22, c["ign"], bool(c["opts"]), c["auth"] != ["none"], c["mux"]]) >= 2

    def klass(self, case, obs):
        return f"{case['pairing']}/{case['dir']}"

    def finding_key(self, case, obs, failure):
        return None



class CopyForeignSuite(Suite):
    """copy() between two DIFFERENT machines of the same (or a derived) class: the same-host branch is taken by class, so
    the only thing that keeps `cp` from running on the wrong machine is the host check of the target path -- it must
    raise instead of copying somewhere else.  Oracle only."""
    name = "copy_foreign"
    model_fn = None

    def gen(self, tier, rng):
        for derived in (False, True):
            for direction in ("ab", "ba"):
                for clone in (False, True):
                    yield {"derived": derived, "dir": direction, "clone": clone}
        # an identity file given as a tbot Path of the lab host while scp is started on another host
        for direction in ("to_remote", "from_remote"):
            for owner in ("runner", "other"):
                yield {"foreignkey": True, "dir": direction, "owner": owner}

    def run_key(self, case):
        rec = Rec()
        lab = mk_rec_host(0, rec)
        local = mk_rec_host(1, rec)
        cfg = dict(DEFAULT_CFG)
        cfg["auth"] = ["key_tbot", "/k/id_lab"]
        # scp for the pairing local <-> ssh machine runs on `local`; the key belongs to `local` (fine) or to `lab`
        keyhost = local if case["owner"] == "runner" else lab
        b = mk_ssh(cfg, lab, keyhost, 2)
        p1, p2 = (linux.Path(local, "/src/file"), linux.Path(b, "/dst/file")) if case["dir"] == "to_remote" else (linux.Path(b, "/src/file"), linux.Path(local, "/dst/file"))
        try:
            tcopy(p1, p2)
        except tbot.error.WrongHostError:
            return [3]
        except NotImplementedError:
            return [2]
        except Exception as e:  # noqa
            return [98, type(e).__name__ + ": " + str(e)[:80]]
        ex = [c for c in rec.calls if c[0] == "exec0"]
        return [0, [list(map(str, c[2])) for c in ex]]

    def run(self, case):
        if case.get("foreignkey"):
            return self.run_key(case)
        rec = Rec()
        base = type("RecHostA", (_RecHost,), {"hid": 0, "name": "hostA"})
        other_cls = type("RecHostB", (base,), {"hid": 1, "name": "hostB"}) if case["derived"] else base
        a = base()
        a.rec = rec
        if case["clone"]:
            b = a.clone()
        else:
            b = other_cls()
            b.rec = rec
        p1, p2 = (linux.Path(a, "/src/file"), linux.Path(b, "/dst/file")) if case["dir"] == "ab" else (linux.Path(b, "/src/file"), linux.Path(a, "/dst/file"))
        try:
            tcopy(p1, p2)
        except tbot.error.WrongHostError:
            return [3]
        except NotImplementedError:
            return [2]
        except Exception as e:  # noqa
            return [98, type(e).__name__ + ": " + str(e)[:80]]
        ex = [c for c in rec.calls if c[0] == "exec0"]
        return [0, [list(map(str, c[2])) for c in ex]]

    def oracle(self, case, obs):
        if case.get("foreignkey"):
            if case["owner"] == "runner":
                ok = obs[0] == 0 and len(obs[1]) == 1 and "/k/id_lab" in obs[1][0]
                return [] if ok else [f"scp with a key file of the host it runs on gave {obs!r}"]
            return [] if obs == [3] else [f"the identity file is a path on the lab host but scp is started on another host: expected WrongHostError, got {obs!r}"]
        if case["clone"]:
            return [] if obs[0] == 0 and len(obs[1]) == 1 and obs[1][0][0] == "cp" else [f"copy between a machine and its clone gave {obs!r}"]
        if obs[0] in (2, 3):
            return []
        return [f"copy between two different machines ({'derived' if case['derived'] else 'same'} class) did not raise: {obs!r} (the file would be copied on one machine only)"]

    def nontrivial(self, case, obs):
        return bool(case.get("foreignkey")) or not case["clone"]

    def klass(self, case, obs):
        if case.get("foreignkey"):
            return "key:" + case["owner"]
        return f"{'derived' if case['derived'] else 'same'}:{'clone' if case['clone'] else 'other'}"

    def finding_key(self, case, obs, failure):
        return None


SUITES = [SshSuite(), CopySuite(), CopyForeignSuite()]


def extra_obligations(tier):
    """the translated part of the model: SSHConnector._connect's and _scp_copy's command lines, regenerated from the current source and
    re-proved equal to ssh_argv / scp_argv (the functions the parsing theorems are about)"""
    from vlib import gen
    return gen.obligations(only=["gen_ssh_argv_is_the_model", "gen_scp_argv_is_the_model"])
