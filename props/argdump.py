"""helper run on the remote side by the end-to-end suites: argdump.py STATUS OUTHEX args...
prints its argv (hex, '|'-separated) and a newline, then the payload, and exits with STATUS"""
import sys

st = int(sys.argv[1])
out = bytes.fromhex(sys.argv[2])
sys.stdout.write("|".join(a.encode("utf-8", "surrogateescape").hex() for a in sys.argv[3:]) + "\n")
sys.stdout.flush()
sys.stdout.buffer.write(out)
sys.stdout.flush()
sys.exit(st)
