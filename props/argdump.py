"""helper run on the remote side by the end-to-end suites: argdump.py STATUS OUTHEX REPEAT args...
prints its argv (hex, '|'-separated) and a newline, then the payload REPEAT times, and exits with STATUS"""
import sys

st = int(sys.argv[1])
out = bytes.fromhex(sys.argv[2]) * int(sys.argv[3])
sys.stdout.write("|".join(a.encode("utf-8", "surrogateescape").hex() for a in sys.argv[4:]) + "\n")
sys.stdout.flush()
sys.stdout.buffer.write(out)
sys.stdout.flush()
sys.exit(st)
