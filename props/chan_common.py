"""Shared harness for the channel properties (C02..C08): a scripted ChannelIO with a virtual clock,
a script interpreter that drives the REAL tbot.machine.channel.Channel, and the rendering of cases
as Coq terms for ChannelCorr.chan_model.  Time unit: 1/1024 s (dyadic, so float arithmetic is exact)."""
import io as _io
import re

import tbot
import tbot.error
import tbot.machine.channel.channel as chmod
from tbot.machine.channel.channel import Channel, ChannelIO, DeathStringException

from vlib import coq

UNIT = 1024.0


class Blocked(Exception):
    """raised by the scripted transport when a read with timeout=None would block for ever"""


class VirtualClock:
    def __init__(self, tick=0):
        self.t = 0  # units
        self.tick = tick   # cost of looking at the clock: models the interpreter's own latency (0 in model-compared suites)

    def monotonic(self):
        self.t += self.tick
        return self.t / UNIT

    def time(self):
        # the wall clock: unrelated to the monotonic clock and stepping back and forth by an hour (NTP, DST, somebody
        # setting the date); tbot's deadlines must not depend on it.  The code under test does not look at it at all.
        self.wall_calls = getattr(self, "wall_calls", 0) + 1
        return 1.7e9 + self.t / UNIT + (3600.0 if self.wall_calls % 2 == 0 else 0.0)

    def sleep(self, d):
        u = d * UNIT
        assert u == int(u), "non-dyadic sleep"
        self.t += int(u)


def to_units(t):
    if t is None:
        return None
    u = t * UNIT
    if u != int(u):
        # a timeout the scripts never use (they are all multiples of the clock's unit): a wait the code under test
        # invented.  The transport honours it, rounded up to the next unit, so that its effect on the timing is observed.
        import math
        return int(math.ceil(u))
    return int(u)


class ScriptIO(ChannelIO):
    """pieces: list of [arrival_units, bytes]; accept: list of ints (partial-write oracle)"""

    def __init__(self, pieces, accept, clock):
        self.pend = [[int(t), bytes(d)] for t, d in pieces]
        self.accept = list(accept)
        self.clock = clock
        self.log = []
        self._closed = False
        self.written = bytearray()
        self.delivered = 0
        self.chunks = []
        self.latency = 0        # > 0: handing data over takes this long, and data arriving exactly at the end of the
        #                         wait is still delivered (what select()-based transports do); oracle-only suites

    def write(self, buf):
        buf = bytes(buf)
        if self.accept:
            k = min(len(buf), max(1, self.accept.pop(0)))
        else:
            k = len(buf)
        self.log.append([1, buf, k])
        self.written += buf[:k]
        return k

    def _deliver(self, n):
        t, d = self.pend[0]
        got, left = d[:n], d[n:]
        if left:
            self.pend[0][1] = left
        else:
            self.pend.pop(0)
        self.clock.t = max(self.clock.t, t) + self.latency
        self.delivered += len(got)
        self.chunks.append(got)
        return got

    def read(self, n, timeout=None):
        tu = to_units(timeout)
        self.log.append([0, n, [] if tu is None else [tu]])
        if n == 0:
            return b""
        now = self.clock.t
        if not self.pend:
            if tu is None:
                raise Blocked()
            self.clock.t = now + max(tu, 0)
            raise TimeoutError()
        t = self.pend[0][0]
        if t <= now or tu is None or t < now + tu or (self.latency and t == now + tu):
            return self._deliver(n)
        self.clock.t = now + max(tu, 0)
        raise TimeoutError()

    def close(self):
        self._closed = True

    def fileno(self):
        return -1

    @property
    def closed(self):
        return self._closed

    def update_pty(self, columns, lines):
        pass

    def unread(self):
        return b"".join(d for _, d in self.pend)


class E0(DeathStringException):
    pass


class E1(DeathStringException):
    pass


class E2(DeathStringException):
    pass


EXC = [E0, E1, E2]


# ------------------------------------------------------------------ regex AST
def re_py(r, top=True):
    k = r[0]
    if k == "eps":
        return b""
    if k == "chr":
        return re.escape(bytes([r[1]]))
    if k == "cls":
        body = b"".join(b"\\x%02x-\\x%02x" % (lo, hi) for lo, hi in r[2])
        return b"[" + (b"^" if r[1] else b"") + body + b"]"
    if k == "any":
        return b"."
    if k == "seq":
        return re_py(r[1], False) + re_py(r[2], False)
    if k == "alt":
        s = re_py(r[1], True) + b"|" + re_py(r[2], True)
        return s if top else b"(?:" + s + b")"
    if k == "rep":
        return b"(?:" + re_py(r[1], True) + b"){%d,%d}" % (r[2], r[3])
    raise ValueError(r)


def re_coq(r):
    k = r[0]
    if k == "eps":
        return "REps"
    if k == "chr":
        return f"(RChr {r[1]}%N)"
    if k == "cls":
        rs = coq.lst(lambda p: f"({p[0]}%N, {p[1]}%N)", r[2], "(N * N)")
        return f"(RCls {coq.boolean(r[1])} {rs})"
    if k == "any":
        return "RAny"
    if k == "seq":
        return f"(RSeq {re_coq(r[1])} {re_coq(r[2])})"
    if k == "alt":
        return f"(RAlt {re_coq(r[1])} {re_coq(r[2])})"
    if k == "rep":
        return f"(RRep {re_coq(r[1])} {r[2]}%nat {r[3]}%nat)"
    raise ValueError(r)


def sstr_py(s):
    """JSON search string -> what is handed to tbot"""
    if "lit" in s:
        return bytes.fromhex(s["lit"])
    if "str" in s:
        return s["str"]
    if "raw" in s:
        return re.compile(s["raw"].encode(), re.M if "M" in s.get("flags", "") else 0)
    return re.compile(re_py(s["re"]))


def sstr_bytes(s):
    if "lit" in s:
        return bytes.fromhex(s["lit"])
    if "str" in s:
        return s["str"].encode()
    return None


def sstr_coq(s):
    if "re" in s:
        return f"(SRe {re_coq(s['re'])})"
    return f"(SLit {coq.nlist(sstr_bytes(s))})"


def optz(t):
    return coq.opt(coq.z, t, "Z")


def op_coq(o):
    k = o[0]
    if k == "read":
        return f"(ORead {coq.z(o[1])} {optz(o[2])})"
    if k == "read_iter":
        return f"(OReadIter {coq.opt(coq.nat, o[1], 'nat')} {optz(o[2])})"
    if k == "readline":
        return f"(OReadline {optz(o[1])} {coq.nlist(bytes.fromhex(o[2]))})"
    if k == "expect":
        return f"(OExpect {coq.lst(sstr_coq, o[1], 'sstr')} {optz(o[2])})"
    if k == "rup":
        return f"(ORup {coq.opt(sstr_coq, o[1], 'sstr')} {optz(o[2])})"
    if k == "rut":
        return f"(ORut {optz(o[1])})"
    if k == "write":
        return f"(OWrite {coq.nlist(bytes.fromhex(o[1]))})"
    if k in ("send", "sendline"):
        name = "OSend" if k == "send" else "OSendline"
        if isinstance(o[1], dict):  # {"str": "..."}
            data, isstr = coq.nlist(ord(ch) for ch in o[1]["str"]), True
        else:
            data, isstr = coq.nlist(bytes.fromhex(o[1])), False
        return f"({name} {coq.boolean(isstr)} {data} {coq.boolean(o[2])} {optz(o[3])})"
    if k == "sendctl":
        return f"(OSendctl {o[1]}%N)"
    if k == "push_prompt":
        return f"(OPushPrompt {sstr_coq(o[1])})"
    if k == "push_death":
        return f"(OPushDeath {sstr_coq(o[1])} {coq.z(o[2])})"
    if k == "push_stream":
        return f"(OPushStream {coq.z(o[1])} {coq.boolean(o[2])})"
    if k in ("pop", "pop_exc"):      # the model does not care how the context is left: it is unregistered either way
        return "OPop"
    if k == "pop_at":
        return f"(OPopAt {coq.nat(o[1])})"
    if k == "add_death":
        return f"(OAddDeath {sstr_coq(o[1])} {coq.z(o[2])})"
    if k == "set_blacklist":
        return f"(OSetBlacklist {coq.nlist(o[1])})"
    if k == "set_slow":
        return "(OSetSlow " + ("None" if o[1] is None else f"(Some ({coq.z(o[1][0])}, {coq.nat(o[1][1])}))") + ")"
    raise ValueError(o)


def case_coq(case):
    pieces = coq.lst(lambda p: f"({coq.z(p[0])}, {coq.nlist(bytes.fromhex(p[1]))})", case["pieces"], "(Z * list N)")
    acc = coq.natlist(case.get("accept", []))
    ops = coq.lst(op_coq, case["ops"], "op")
    return f"({pieces}, {acc}, {ops})"


# ------------------------------------------------------------------ running the implementation
def _tmo(t):
    return None if t is None else t / UNIT


def _exc_obs(e):
    if isinstance(e, TimeoutError):
        return [2]
    if isinstance(e, Blocked):
        return [3]
    if isinstance(e, DeathStringException):
        eid = EXC.index(type(e)) if type(e) in EXC else 9
        mt = e.match
        if not isinstance(mt, (bytes, bytearray)):
            mt = mt[0]
        return [4, eid, bytes(mt)]
    if isinstance(e, tbot.error.IllegalDataException):
        return [5]
    if isinstance(e, AssertionError):
        return [6]
    return [98, type(e).__name__]


def run_script(case, channel_cls=Channel):
    """Execute the script on the real Channel.  Returns the observation mirrored by ChannelCorr.chan_model."""
    clock = VirtualClock(case.get("tick", 0))
    sio = ScriptIO([[t, bytes.fromhex(h)] for t, h in case["pieces"]], case.get("accept", []), clock)
    sio.latency = case.get("latency", 0)
    saved_time = chmod.time
    chmod.time = clock
    try:
        ch = channel_cls(sio)
        streams = [_io.StringIO() for _ in range(3)]
        stack = []
        out = []
        extra = []
        xchunks = []
        for o in case["ops"]:
            sio.log = []
            marks = [len(s.getvalue()) for s in streams]
            k = o[0]
            try:
                if k == "read":
                    r = [1, bytes(ch.read(o[1], timeout=_tmo(o[2])))]
                elif k == "read_iter":
                    chunks = []
                    status = [0]
                    try:
                        kw = {} if o[1] is None else {"max": o[1]}
                        for c in ch.read_iter(timeout=_tmo(o[2]), **kw):
                            chunks.append(bytes(c))
                    except Exception as e:  # noqa
                        status = _exc_obs(e)
                    r = [8, chunks, status]
                elif k == "readline":
                    r = [1, ch.readline(timeout=_tmo(o[1]), lineending=bytes.fromhex(o[2]))]
                elif k == "expect":
                    er = ch.expect([sstr_py(p) for p in o[1]], timeout=_tmo(o[2]))
                    mt = er.match
                    if isinstance(mt, str):
                        mt = sstr_bytes(o[1][er.i])  # literal: the pattern itself (decoded by tbot)
                        assert er.match == mt.decode("utf-8", "replace")
                    else:
                        mt = mt[0]
                    r = [7, er.i, bytes(mt), er.before, er.after]
                elif k == "rup":
                    r = [1, ch.read_until_prompt(None if o[1] is None else sstr_py(o[1]), timeout=_tmo(o[2]))]
                elif k == "rut":
                    r = [1, ch.read_until_timeout(_tmo(o[1]))]
                elif k == "write":
                    ch.write(bytes.fromhex(o[1]))
                    r = [0]
                elif k in ("send", "sendline"):
                    data = o[1]["str"] if isinstance(o[1], dict) else bytes.fromhex(o[1])
                    getattr(ch, k)(data, read_back=o[2], timeout=_tmo(o[3]))
                    r = [0]
                elif k == "sendctl":
                    ch.sendcontrol(chr(o[1]))
                    r = [0]
                elif k == "push_prompt":
                    cm = ch.with_prompt(sstr_py(o[1]))
                    cm.__enter__()
                    stack.append(cm)
                    r = [0]
                elif k == "push_death":
                    cm = ch.with_death_string(sstr_py(o[1]), EXC[o[2]])
                    cm.__enter__()
                    stack.append(cm)
                    r = [0]
                elif k == "push_stream":
                    cm = ch.with_stream(streams[o[1]], show_prompt=o[2])
                    cm.__enter__()
                    stack.append(cm)
                    r = [0]
                elif k == "pop":
                    if stack:
                        stack.pop().__exit__(None, None, None)
                    r = [0]
                elif k == "pop_exc":
                    # the context is left by an exception raised in its body (a failed assertion of the test, a timeout)
                    if stack:
                        exc = RuntimeError("raised in the body of the context")
                        try:
                            swallowed = stack.pop().__exit__(RuntimeError, exc, None)
                        except RuntimeError as e2:
                            swallowed = e2 is not exc
                        r = [0] if not swallowed else [9, "context swallowed the exception"]
                    else:
                        r = [0]
                elif k == "pop_at":
                    if o[1] < len(stack):
                        stack.pop(len(stack) - 1 - o[1]).__exit__(None, None, None)
                    r = [0]
                elif k == "add_death":
                    ch.add_death_string(sstr_py(o[1]), EXC[o[2]])
                    r = [0]
                elif k == "set_blacklist":
                    ch._write_blacklist = list(o[1])
                    r = [0]
                elif k == "set_slow":
                    if o[1] is None:
                        ch.slow_send_delay = None
                    else:
                        ch.slow_send_delay = o[1][0] / UNIT
                        ch.slow_send_chunksize = o[1][1]
                    r = [0]
                else:
                    raise ValueError(o)
            except Exception as e:  # noqa
                r = _exc_obs(e)
            deltas = [s.getvalue()[m:] for s, m in zip(streams, marks)]
            out.append([r, clock.t, deltas, list(sio.log)])
            extra.append(sio.delivered)
            xchunks.append(list(sio.chunks))
            sio.chunks = []
        final = [sio.unread(), bytes(ch._streambuf), len(ch.death_strings), len(ch._streams), bool(ch._log_prompt), bytes(sio.written)]
        return [out, final, extra, xchunks]
    finally:
        chmod.time = saved_time


def all_compositions(data, maxpieces=None):
    """all ways to cut `data` (bytes) into non-empty consecutive pieces"""
    n = len(data)
    if n == 0:
        yield []
        return
    for mask in range(1 << (n - 1)):
        pieces, start = [], 0
        for i in range(n - 1):
            if mask >> i & 1:
                pieces.append(data[start:i + 1])
                start = i + 1
        pieces.append(data[start:])
        if maxpieces is None or len(pieces) <= maxpieces:
            yield pieces


# ------------------------------------------------------------------ shared Suite base + generators
from vlib.framework import Suite  # noqa: E402


def py_text(b):
    return bytes(b).decode("utf-8", errors="replace").replace("\r\n", "\n").replace("\n\r", "\n")


class ChanSuite(Suite):
    imports = ["Utf8", "Regex", "Channel", "ChannelCorr"]
    model_fn = "chan_model"
    shard = 400

    def run(self, case):
        return run_script(case)

    def coq_input(self, case):
        return case_coq(case)

    def obs_term(self, case, obs):
        # obs[2] (bytes delivered by the transport after each op) is harness-side bookkeeping for the oracles only
        return coq.V(obs[:2])


def timed(pieces, gaps=None):
    """pieces: list of bytes -> [[t, hex]] with all arrivals at t=0 (or cumulative gaps)"""
    out, t = [], 0
    for i, p in enumerate(pieces):
        if gaps:
            t += gaps[i]
        out.append([t, bytes(p).hex()])
    return out


def rand_split(rng, data, maxpieces=6):
    n = len(data)
    if n == 0:
        return []
    k = rng.randint(1, min(maxpieces, n))
    cuts = sorted(rng.sample(range(1, n), k - 1)) if k > 1 else []
    out, prev = [], 0
    for c in cuts + [n]:
        out.append(data[prev:c])
        prev = c
    return out


def rand_bytes(rng, n, alpha):
    return bytes(rng.choice(alpha) for _ in range(n))


RE_POOL = [
    # (ast, description) -- bounded, non-nullable bodies under repetition
    ["seq", ["rep", ["cls", False, [[48, 57]]], 0, 3], ["seq", ["chr", 62], ["chr", 32]]],     # \d{0,3}>_
    ["alt", ["seq", ["chr", 97], ["chr", 62]], ["seq", ["chr", 98], ["chr", 62]]],              # a>|b>
    ["seq", ["chr", 61], ["seq", ["chr", 62], ["chr", 32]]],                                    # =>_
    ["rep", ["alt", ["chr", 97], ["chr", 98]], 1, 2],                                           # (a|b){1,2}
    ["seq", ["any"], ["chr", 62]],                                                              # .>
    ["seq", ["cls", True, [[97, 98]]], ["chr", 36]],                                            # [^ab]\$
    ["seq", ["chr", 97], ["rep", ["chr", 98], 0, 2]],                                           # ab{0,2}
    ["alt", ["chr", 62], ["seq", ["chr", 62], ["chr", 62]]],                                    # >|>>
    # (?:=|-)>_|#_  : the source starts with a group and has a top-level alternation (the end anchor must bind to both)
    ["alt", ["seq", ["alt", ["chr", 61], ["chr", 45]], ["seq", ["chr", 62], ["chr", 32]]], ["seq", ["chr", 35], ["chr", 32]]],
]
