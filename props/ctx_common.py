"""Shared harness for C14 / C15: instrumented dummy machine classes registered in a real tbot.Context,
request programs, and their rendering as Coq terms for Context.ctx_model."""
import contextlib
import io

import _pytest.outcomes
import tbot
import tbot.error
import tbot.role
from tbot.machine import machine, shell, connector, board, channel

from vlib import coq
from vlib.framework import Suite


class Fault(Exception):
    def __init__(self, ident):
        super().__init__(f"fault {ident}")
        self.ident = ident


class BFault(BaseException):
    """the same fault raised as something that is not an Exception (KeyboardInterrupt-like): teardown loops must
    survive it too"""

    def __init__(self, ident):
        super().__init__(f"fault {ident}")
        self.ident = ident


class BodyError(Exception):
    pass


class Oracle:
    def __init__(self, bits, hook=0):
        self.bits = list(bits)
        self.n = 0
        self.log = []
        self.next_inst = 0
        self.hook = hook          # bit c set: class c's initialisation fault fires in the machine's init() hook
        self.held = {}            # class -> low-level resources acquired by _init_machine and not yet released
        self.base_exc = False     # faults are raised as BaseException subclasses

    def check(self):
        ident = self.n
        self.n += 1
        b = self.bits.pop(0) if self.bits else False
        if b:
            raise (BFault if self.base_exc else Fault)(ident)


O = None


def mk_init(c, O):
    """One check point per machine initialisation -- in the Initializer (before its yield) or, when the case says so,
    in the machine's init() hook, the LAST step of Machine.__enter__ -- and one per teardown.  The model sees the
    same thing either way (a machine whose __enter__ raised was never initialised); what the machine acquired before
    the hook failed must have been released again, which the low-level `held` counter observes."""
    class Init(machine.Initializer):
        @contextlib.contextmanager
        def _init_machine(self):
            in_hook = bool(O.hook >> c & 1)
            if not in_hook:
                O.check()
            O.held[c] = O.held.get(c, 0) + 1
            self._born = False
            try:
                yield None
            finally:
                O.held[c] -= 1
                if self._born:
                    O.log.append([2, c, self._vid])
                    O.check()

        def init(self):
            if O.hook >> c & 1:
                O.check()
            self._vid = O.next_inst
            O.next_inst += 1
            O.log.append([1, c, self._vid])
            self._born = True
    Init.__name__ = f"Init{c}"
    return Init


class Role4(tbot.role.Role):
    """a second board-like role built from the lab-host"""


@contextlib.contextmanager
def _null_connect(self):
    with channel.NullChannel() as ch:
        yield ch


def build_classes(O):
    """class table [None, (0,shared), (1,excl), (2,excl), (0,shared)] using tbot's OWN from_context implementations"""
    class L(connector.NullConnector, mk_init(0, O), shell.RawShell):
        name = "verif-lab"

    class B(connector.ConsoleConnector, mk_init(1, O), board.Board):
        name = "verif-board"
        _connect = _null_connect

        def connect(self, mach):
            raise NotImplementedError()

    class U(board.Connector, mk_init(2, O), shell.RawShell):
        name = "verif-uboot"
        _connect = _null_connect

    class X(connector.Connector, mk_init(3, O), shell.RawShell):
        """uses LinuxUbootConnector's OWN from_context (requests BoardUBoot exclusively) without its login logic"""
        name = "verif-linux"
        _connect = _null_connect
        from_context = board.LinuxUbootConnector.__dict__["from_context"]

        def __init__(self, b):
            self._b = b

        def clone(self):
            raise NotImplementedError()

    class B2(connector.ConsoleConnector, mk_init(4, O), board.Board):
        name = "verif-board2"
        _connect = _null_connect

        def connect(self, mach):
            raise NotImplementedError()

    return [L, B, U, X, B2]


ROLES = [tbot.role.LabHost, tbot.role.Board, tbot.role.BoardUBoot, tbot.role.BoardLinux, Role4]
TABLE = [None, (0, False), (1, True), (2, True), (0, False)]


def table_coq():
    return coq.lst(lambda d: "None" if d is None else f"(Some ({d[0]}%nat, {coq.boolean(d[1])}))", TABLE, "(option (nat * bool))")


def optb(b):
    return "None" if b is None else f"(Some {coq.boolean(b)})"


def prog_coq(p):
    k = p[0]
    if k == "skip":
        return "CSkip"
    if k == "body":
        return f"(CBody {p[1]}%nat)"
    if k == "seq":
        return f"(CSeq {prog_coq(p[1])} {prog_coq(p[2])})"
    if k == "raise":
        return f"(CRaise {coq.boolean(p[1])})"
    if k == "try":
        return f"(CTry {prog_coq(p[1])})"
    if k in ("request", "hrequest"):
        return f"(CRequest {p[1]}%nat {coq.boolean(p[2])} {coq.boolean(p[3])} {optb(p[4])} {prog_coq(p[5])})"
    if k == "reconf":
        return f"(CReconf {optb(p[1])} {optb(p[2])} {prog_coq(p[3])})"
    if k == "tia":
        return f"(CTeardownIfAlive {p[1]}%nat)"
    if k == "ctx":
        return f"(CWithCtx {prog_coq(p[1])})"
    raise ValueError(p)


def case_coq(case):
    bits = coq.lst(coq.boolean, case["faults"], "bool")
    return f"({table_coq()}, ({coq.boolean(case['ka'])}, {coq.boolean(case['roe'])}), {prog_coq(case['prog'])}, {bits})"


class Raised(Exception):
    pass


def run_prog(p, ctx, raised):
    k = p[0]
    if k == "skip":
        return
    if k == "body":
        O.log.append([4, p[1]])
    elif k == "seq":
        run_prog(p[1], ctx, raised)
        run_prog(p[2], ctx, raised)
    elif k == "raise":
        e = _pytest.outcomes.Skipped("skip") if p[1] else BodyError("body")
        raised.append(e)
        raise e
    elif k == "try":
        try:
            run_prog(p[1], ctx, raised)
        except BaseException:
            pass
    elif k == "hrequest":
        # the handle API: `with ctx() as cx: m = cx.request(...)` -- the request is left when the handle's block ends,
        # with the exception of the body (if any) in flight; for the model this is a request like any other
        c = p[1]
        entered = False
        try:
            with ctx() as cx:
                m = cx.request(ROLES[c], reset=p[2], exclusive=p[3], reset_on_error=p[4])
                entered = True
                O.log.append([3, c, getattr(m, "_vid", -1)])
                run_prog(p[5], ctx, raised)
        finally:
            if entered:
                O.log.append([5, c])
    elif k == "request":
        c = p[1]
        entered = False
        try:
            with ctx.request(ROLES[c], reset=p[2], exclusive=p[3], reset_on_error=p[4]) as m:
                entered = True
                O.log.append([3, c, getattr(m, "_vid", -1)])
                run_prog(p[5], ctx, raised)
        finally:
            if entered:
                O.log.append([5, c])
    elif k == "reconf":
        with ctx.reconfigure(keep_alive=p[1], reset_on_error_by_default=p[2]):
            run_prog(p[3], ctx, raised)
    elif k == "tia":
        ctx.teardown_if_alive(ROLES[p[1]])
    elif k == "ctx":
        with ctx:
            try:
                run_prog(p[1], ctx, raised)
            finally:
                O.log.append([6])
    else:
        raise ValueError(p)


def run_case(case):
    global O
    O = Oracle(case["faults"], case.get("hook", 0))
    O.base_exc = bool(case.get("base_exc"))
    classes = build_classes(O)
    ctx = tbot.Context(keep_alive=case["ka"], reset_on_error_by_default=case["roe"])
    for cls, role in zip(classes, ROLES):
        ctx.register(cls, role)
    raised = []
    outcome = []
    with contextlib.redirect_stdout(io.StringIO()):
        try:
            run_prog(case["prog"], ctx, raised)
        except (Fault, BFault) as f:
            outcome = [[3, f.ident]]
        except tbot.error.ContextError:
            outcome = [[4]]
        except BodyError as e:
            outcome = [[1]] if raised and e is raised[-1] else [[98, "other BodyError object"]]
        except _pytest.outcomes.Skipped as e:
            outcome = [[2]] if raised and e is raised[-1] else [[98, "other Skipped object"]]
        except BaseException as e:  # noqa
            outcome = [[98, type(e).__name__]]
    alive = [bool(ctx._instances[cls].is_alive()) for cls in classes]
    # low-level resources: exactly the live instances hold one (event 97 is never produced by the model)
    live = {}
    for e in O.log:
        if e[0] == 1:
            live[e[1]] = live.get(e[1], 0) + 1
        elif e[0] == 2:
            live[e[1]] = live.get(e[1], 0) - 1
    for c in range(len(classes)):
        if O.held.get(c, 0) != live.get(c, 0):
            O.log.append([97, c, O.held.get(c, 0)])
    # the CLeft event of the model is emitted after the request has been left, also when it raised:
    return [fix_left(O.log, case), outcome, alive]


def fix_left(log, case):
    return log


class CtxSuiteBase(Suite):
    imports = ["Context"]
    model_fn = "ctx_model"
    shard = 300

    def coq_input(self, case):
        return case_coq(case)

    def run(self, case):
        return run_case(case)


# ---------------------------------------------------------------- program generation
def rand_prog(rng, depth, classes=(0, 1, 2, 3, 4)):
    x = rng.random()
    if depth <= 0 or x < 0.12:
        return rng.choice([["skip"], ["body", rng.randint(0, 3)], ["raise", False], ["raise", rng.random() < 0.3],
                           ["tia", rng.choice(classes)]])
    if x < 0.55:
        return ["request", rng.choice(classes), rng.random() < 0.25, rng.random() < 0.25,
                rng.choice([None, None, True, False]), rand_prog(rng, depth - 1, classes)]
    if x < 0.75:
        return ["seq", rand_prog(rng, depth - 1, classes), rand_prog(rng, depth - 1, classes)]
    if x < 0.87:
        return ["try", rand_prog(rng, depth - 1, classes)]
    if x < 0.95:
        return ["reconf", rng.choice([None, True, False]), rng.choice([None, True, False]), rand_prog(rng, depth - 1, classes)]
    return ["ctx", rand_prog(rng, depth - 1, classes)]


def to_handle_api(p, rng, prob=0.6):
    """the same program with some requests made through the handle API"""
    k = p[0]
    if k == "request":
        return ["hrequest" if rng.random() < prob else "request", p[1], p[2], p[3], p[4], to_handle_api(p[5], rng, prob)]
    if k == "hrequest":
        return p
    if k == "seq":
        return ["seq", to_handle_api(p[1], rng, prob), to_handle_api(p[2], rng, prob)]
    if k in ("try", "ctx"):
        return [k, to_handle_api(p[1], rng, prob)]
    if k == "reconf":
        return ["reconf", p[1], p[2], to_handle_api(p[3], rng, prob)]
    return p

