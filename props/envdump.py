"""helper run on the remote side: prints the value of the environment variable named by argv[1] as hex"""
import os
import sys

print(os.environb.get(sys.argv[1].encode(), b"").hex())
