"""helper run on the remote side by the end-to-end suite of C10: an interactive program.
usage: interactive_helper.py STATUS EARLY BANNER -- prints the banner; if EARLY exits at once printing 'bye';
otherwise prompts with '(hlp) ', answers ping/two/big and exits on 'quit' with STATUS"""
import sys

status, early, banner = int(sys.argv[1]), int(sys.argv[2]), sys.argv[3]
if banner:
    print(banner, flush=True)
if early:
    print("bye", flush=True)
    sys.exit(status)
while True:
    sys.stdout.write("(hlp) ")
    sys.stdout.flush()
    line = sys.stdin.readline()
    if not line:
        break
    line = line.rstrip("\n")
    if line == "quit":
        print("bye", flush=True)
        break
    sys.stdout.write({"ping": "pong\n", "two": "a\nb\n", "big": "y" * 700 + "\n"}.get(line, "? " + line + "\n"))
    sys.stdout.flush()
sys.exit(status)
