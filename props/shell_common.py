"""Shared harness for the shell / console properties (C01, C09, C10, C11, C18, C19): a staged scripted transport
(the console's reaction to each line is loaded when the line is written), a virtual clock patched into every tbot
module that looks at the time, fragmentation generators, and rendering of stages as Coq terms for Session.v."""
import contextlib
import io as _io

import tbot
import tbot.log
import tbot.machine.channel.channel as chmod
import tbot.machine.board.uboot as ubmod
import tbot.machine.board.linux as blmod
import tbot.machine.board.board as bbmod

from vlib import coq
from .chan_common import VirtualClock, ScriptIO, Blocked, UNIT, py_text  # noqa: F401


class StageIO(ScriptIO):
    """stages: list of stages; a stage = list of [dt_units, bytes] relative to the moment its line is written.
    A stage is loaded by the first write() call after the previous line was completed (a write containing CR)."""

    def __init__(self, stages, accept, clock, initial=()):
        super().__init__(list(initial), accept, clock)
        self.stages = [[[int(t), bytes(d)] for t, d in st] for st in stages]
        self.armed = True
        self.loaded = 0

    def load_next(self, buf=None):
        # tagged stages ({"tag": first bytes of the line the stage reacts to, "st": pieces}): reactions to lines that
        # are never sent (the code under test gave up early) are skipped
        while self.stages and isinstance(self.stages[0], dict):
            tag = self.stages[0]["tag"]
            if buf is None or bytes(buf).startswith(tag[:len(buf)]) and tag.startswith(bytes(buf)[:len(tag)]):
                self.stages[0] = self.stages[0]["st"]
                break
            self.stages.pop(0)
        if self.stages:
            st = self.stages.pop(0)
            now = self.clock.t
            for dt, d in st:
                self.pend.append([now + dt, d])
        self.loaded += 1

    def read(self, n, timeout=None):
        if self.reactor is not None and timeout is not None:
            timeout = round(timeout * UNIT) / UNIT      # init phase: data is there at once, the exact value is irrelevant
        return super().read(n, timeout)

    reactor = None      # reactive mode (used while a shell initialises): fn(line) -> reaction bytes

    def write(self, buf):
        if self.reactor is not None:
            before = len(self.written)
            k = super().write(buf)
            self._line = getattr(self, "_line", b"") + bytes(self.written[before:])
            while b"\r" in self._line:
                line, _, self._line = self._line.partition(b"\r")
                data = self.reactor(line)
                if data:
                    self.pend.append([self.clock.t, data])
            return k
        if self.armed:
            self.load_next(buf)
            self.armed = False
        before = len(self.written)
        k = super().write(buf)
        w = bytes(self.written[before:])
        if b"\r" in w or b"\x04" in w:        # a line was completed, or ^D (end of input) was typed
            self.armed = True
        return k


@contextlib.contextmanager
def patched_clock(clock):
    mods = [chmod, ubmod, blmod, bbmod]
    saved = [m.time for m in mods]
    for m in mods:
        m.time = clock
    try:
        yield clock
    finally:
        for m, s in zip(mods, saved):
            m.time = s


@contextlib.contextmanager
def quiet_log():
    saved = (tbot.log.VERBOSITY, tbot.log.LOGFILE)
    tbot.log.VERBOSITY = tbot.log.Verbosity.QUIET
    try:
        with contextlib.redirect_stdout(_io.StringIO()):
            yield
    finally:
        tbot.log.VERBOSITY, tbot.log.LOGFILE = saved


# ------------------------------------------------------------------ fragmentation
def boundaries(pieces, skip):
    """offsets (into the concatenation of the pieces) at which a read_until_prompt loop that starts after `skip`
    bytes have been consumed exactly (read-back) looks at its buffer: piece ends, and every 4096 bytes inside a
    piece counted from where the previous read stopped"""
    out, off = [], 0
    for p in pieces:
        start, end = off, off + len(p)
        off = end
        if end <= skip:
            continue
        pos = max(start, skip)
        while end - pos > 4096:
            pos += 4096
            out.append(pos)
        out.append(end)
    return out


def fragment(rng, data, skip, prompt, maxpieces=8, one_byte=False, lookalike_ok=False):
    """cut data into pieces such that no inspection point other than the last one sees a buffer ending in the
    prompt (the stated limitation of sentinel prompts); returns list of bytes"""
    n = len(data)
    if n == 0:
        return []
    for _ in range(50):
        if one_byte:
            pieces = [data[i:i + 1] for i in range(n)]
        else:
            k = rng.randint(1, min(maxpieces, n))
            cuts = sorted(rng.sample(range(1, n), k - 1)) if k > 1 else []
            pieces, prev = [], 0
            for c in cuts + [n]:
                pieces.append(data[prev:c])
                prev = c
        if lookalike_ok:
            return pieces
        bad = [b for b in boundaries(pieces, skip) if b < n and data[skip:b].endswith(prompt)]
        if not bad:
            return pieces
        if one_byte:
            # merge the piece after every look-alike boundary into its predecessor
            merged, off = [], 0
            for p in pieces:
                if merged and off in bad:
                    merged[-1] += p
                else:
                    merged.append(p)
                off += len(p)
            return merged
    # fallback (e.g. one piece only, and a 4096-byte read boundary falls right behind a look-alike): shift the
    # boundaries by cutting off a short first piece
    for cut in range(1, min(n, 200)):
        pieces = [data[:cut], data[cut:]]
        if not [b for b in boundaries(pieces, skip) if b < n and data[skip:b].endswith(prompt)]:
            return pieces
    return [data]


def timed_stage(rng, pieces, maxgap=0):
    out, t = [], 0
    for p in pieces:
        if maxgap:
            t += rng.choice([0, 0, 1, maxgap, rng.randint(0, maxgap)])
        out.append([t, p])
    return out


def stage_coq(st):
    return coq.lst(lambda e: f"({coq.z(e[0])}, {coq.nlist(e[1])})", st, "(Z * list N)")


def stages_coq(sts):
    return coq.lst(stage_coq, sts, "(list (Z * list N))")


def codepoints(s):
    return coq.nlist(ord(c) for c in s)


def exc_kind(e):
    """small enum for exceptions of channel operations, as V_res_unit in Session.v"""
    import tbot.error
    if isinstance(e, Blocked):
        return 2
    if isinstance(e, TimeoutError):
        return 1
    if isinstance(e, chmod.DeathStringException):
        return [3, 0]
    if isinstance(e, tbot.error.IllegalDataException):
        return 4
    if isinstance(e, AssertionError):
        return 5
    raise e
