"""Users of Channel.take(): the machines that hand their channel over.  UBootShell.boot() runs a command that starts a
payload and returns the channel for the machine built on top of it; from then on the U-Boot machine's own handle must be
unusable (ChannelTakenError, `closed` True) and nothing done through it may reach the console."""
import contextlib

import tbot
import tbot.error
from tbot.machine import board, channel, connector

from vlib.framework import Suite
from . import shell_common as sc

PROBES = ["sendline", "write", "read", "fileno", "closed", "exec0", "sendcontrol", "read_until_prompt"]


def mk_ub(io, prompt):
    class UB(connector.Connector, board.UBootShell):
        name = "ub-take"

        @contextlib.contextmanager
        def _connect(self):
            yield channel.Channel(io)

        def clone(self):
            raise NotImplementedError()
    UB.prompt = prompt
    return UB


def probe(ub, ch, what):
    """-> [kind] : 'taken' (ChannelTakenError), 'true'/'false' for closed, 'ok' (it worked), or the exception's name"""
    try:
        if what == "sendline":
            ch.sendline("setenv bootargs oops")
        elif what == "write":
            ch.write(b"x")
        elif what == "read":
            ch.read(1, timeout=0.25)
        elif what == "fileno":
            ch.fileno()
        elif what == "closed":
            return "true" if ch.closed else "false"
        elif what == "exec0":
            ub.exec0("echo", "still here")
        elif what == "sendcontrol":
            ch.sendcontrol("C")
        elif what == "read_until_prompt":
            ch.read_until_prompt(timeout=0.25)
        return "ok"
    except tbot.error.ChannelTakenError:
        return "taken"
    except Exception as e:  # noqa
        return type(e).__name__


class TakeUsersSuite(Suite):
    """UBootShell.boot(): after the hand-over the U-Boot machine's handle is Taken (oracle only)"""
    name = "take_users"
    model_fn = None

    def gen(self, tier, rng):
        prompts = [b"=> ", b"U-Boot> "]
        cmds = [["bootm", "0x10000000"], ["boot"], ["run", "bootcmd"], ["bootz", "0x82000000", "-", "0x88000000"]]
        for p in prompts:
            for c in cmds:
                for order in range(3 if tier == "quick" else 8):
                    pr = list(PROBES)
                    rng.shuffle(pr)
                    yield {"prompt": p.hex(), "cmd": c, "probes": pr}

    def run(self, case):
        prompt = bytes.fromhex(case["prompt"])
        clock = sc.VirtualClock()
        io = sc.StageIO([], [], clock, initial=[[0, prompt]])
        UB = mk_ub(io, prompt)
        res = []
        with sc.patched_clock(clock), sc.quiet_log():
            with UB() as ub:
                line = ub.escape(*case["cmd"]).encode()
                io.stages = [[[0, line + b"\r\n"], [1, b"## Booting kernel ...\r\n"]]]
                io.armed = True
                old = ub.ch
                new = ub.boot(*case["cmd"])
                base = len(io.written)
                res.append(["same-object", 1 if new is old else 0])
                for what in case["probes"]:
                    res.append([what, probe(ub, ub.ch, what)])
                res.append(["reached-console", bytes(io.written[base:]).hex()])
                # the channel that was handed over is live
                try:
                    new.write(b"\r")
                    res.append(["new-handle", "ok"])
                except Exception as e:  # noqa
                    res.append(["new-handle", type(e).__name__])
                io.pend = []
        return res

    def oracle(self, case, obs):
        fails = []
        for what, r in obs:
            if what == "same-object" and r != 0:
                fails.append("boot() returned the U-Boot machine's own handle instead of a taken-over channel")
            elif what == "closed" and r != "true":
                fails.append(f"`closed` of the U-Boot machine's handle after boot() is {r}, must be True")
            elif what in PROBES and what != "closed" and r != "taken":
                fails.append(f"{what} through the U-Boot machine's handle after boot(): {r}, must raise ChannelTakenError")
            elif what == "reached-console" and r != "":
                fails.append(f"bytes {r} reached the console through the handle that was taken")
            elif what == "new-handle" and r != "ok":
                fails.append(f"the channel returned by boot() is not usable: {r}")
        return fails

    def klass(self, case, obs):
        return case["cmd"][0]
