#!/usr/bin/env python3
"""Regenerates MANIFEST.json from the table below (run after adding a property check)."""
import json, os
ROOT = os.path.dirname(os.path.dirname(os.path.abspath(__file__)))
PROPS = [json.loads(l) for l in open(os.path.join(ROOT, "properties.jsonl"))]

# id -> (technique, level text, level note, design ref)
CLAIMED = {
 "C02": ("Coq proof over the channel model (induction on the read loop, regex matcher soundness+completeness) + correspondence of the model with the real Channel on a scripted ChannelIO",
         "Machine-checked theorems (Coq 8.16.1, closed under the global context) over an executable model of Channel.read_until_prompt: the call returns only when the received data passes the prompt test, returns exactly the text before the prompt, consumes nothing beyond, and for a stream whose only prompt occurrence is its tail the result is the same for EVERY composition into pieces (literal and bounded-regex prompts, channel or per-call). The model is tied to /repo on every run by running the real Channel and the model on the same scripted transports (exhaustive short streams x all compositions) and comparing all observations.",
         "Trusted: Coq kernel + vm_compute; hand-written model coq/Channel.v, Regex.v, Utf8.v (validated against CPython); the correspondence harness; regex fragment = literals/classes/dot/seq/alt/bounded greedy repetition.",
         "DESIGN.md 8/C02"),
 "C03": ("Coq proof over the channel model (conservation invariant buf++pending=stream by induction on the read loops; write cursor loop for every partial-write oracle) + correspondence with the real Channel on a scripted ChannelIO",
         "Machine-checked theorems over an executable model of Channel.read/read_iter/readline/write/send/sendline/sendcontrol: read(n) returns exactly n bytes and never over-reads, a bounded iteration never takes more than its maximum, readline stops exactly after the first line ending, any interleaving of successful reads returns the stream in order exactly once, write delivers exactly the buffer for every partial-write behaviour, forbidden bytes never reach the transport and what did is a clean prefix. Model tied to /repo by differential runs (exhaustive compositions of short streams x op pairs, all accept oracles for short buffers, random scripts) with an independent Python oracle.",
         "Trusted: Coq kernel + vm_compute; hand-written model coq/Channel.v; the correspondence harness; transport contract (1..n bytes per read, 1..len per write).",
         "DESIGN.md 8/C03"),
 "C04": ("Coq proof over the channel model (expect loop induction, first-occurrence lemma for bytes.find, regex matcher soundness+completeness for leftmost search) + correspondence with the real Channel",
         "Machine-checked theorems over an executable model of Channel.expect: it returns after the first piece at which some pattern matches the consumed data and not before, names the lowest-indexed matching pattern, before/match/after partition the consumed bytes around that pattern's first (leftmost) hit, TimeoutError exactly at the deadline otherwise. Model tied to /repo by differential runs over exhaustive short streams x all compositions x pattern pairs, with bytes.find/re.search as independent oracle.",
         "Trusted: Coq kernel + vm_compute; hand-written models coq/Channel.v, Regex.v (fragment: literals/classes/dot/seq/alt/bounded greedy repetition), Utf8.v; the correspondence harness.",
         "DESIGN.md 8/C04"),
 "C06": ("Coq proof of the deadline invariant now <= start+T over the channel model under a virtual clock + correspondence with the real Channel whose `time` module is replaced by the same virtual clock",
         "Machine-checked theorems: every timed operation (read(n), read_iter, readline, expect, read_until_prompt, send with read-back) has returned or raised by call time + T, raises TimeoutError exactly at call time + T and never earlier, never raises it without a timeout; read_until_timeout returns exactly at T with exactly the data delivered before it. Partial by nature: virtual time only (the interpreter's latency and the OS are not modelled). Tied to /repo by differential runs over generated arrival schedules (trickles, arrivals at the deadline, multi-slice send echoes).",
         "Trusted: Coq kernel + vm_compute; hand-written model coq/Channel.v; the virtual clock substituted for channel.py's time module; a ChannelIO that honours its own timeout exactly. SubprocessChannelIO's select loop is not covered by the theorems.",
         "DESIGN.md 8/C06"),
 "C05": ("Coq proof of the ring-buffer invariant (ring = last 2*len bytes of the data since registration; window lemma) over the channel model + correspondence with the real Channel",
         "Machine-checked theorems over an executable model of Channel._check and the read iteration: for any set of registered literal death strings of different lengths and any incoming piece, _check raises iff one of the strings occurs in the data received since ITS registration -- never earlier, never missed, whatever the position of the occurrence relative to piece and scan-window boundaries and whatever read method is used (all are loops of the same iteration). Bounded-regex death strings: soundness proved, completeness only exercised by the correspondence/oracle (partial). Tied to /repo by differential runs (all compositions x all offsets x read methods x sets/nestings) with bytes.find/re as independent oracle.",
         "Trusted: Coq kernel + vm_compute; hand-written model coq/Channel.v; the correspondence harness. Regex death strings: completeness not proved.",
         "DESIGN.md 8/C05"),
 "C08": ("Coq proof of the stream invariant (forwarded ++ held = data, held = longest prompt-prefix suffix; KMP-style incremental overlap lemma) over the channel model + correspondence with the real Channel (stream contents after every operation)",
         "Machine-checked theorems over an executable model of _write_stream/with_stream: with suppression on and a literal prompt, what is forwarded is always the data read since attaching minus exactly the longest suffix that could still become the prompt; after a read that ends at the prompt the stream holds exactly the output, detaching drops the held-back prompt, nothing leaks; with suppression off everything is forwarded; all attached streams get the same text. The full property is refuted (theorems C08_*_refuted, known findings) for regex prompts and for nested attachments with different modes. Tied to /repo by differential runs over all compositions of short streams and attach/detach sequences.",
         "Trusted: Coq kernel + vm_compute; hand-written models coq/Channel.v, Utf8.v; the correspondence harness. Known findings: regex-prompt hold-back, nested mixed modes (known_findings.json).",
         "DESIGN.md 8/C08"),
 "C07": ("Coq proof of a world invariant over all histories (induction over operation sequences on the handle table) + correspondence with the real Channel objects",
         "Machine-checked theorems over an executable model of borrow()/take() and the Borrowed/Taken sentinels: in every reachable world each active borrow's lender is Borrowed (all its I/O and state calls raise ChannelBorrowedError and change nothing), the borrower is Live with a copy of the configuration, the end of the borrow (normal or exceptional) restores the lender; a taken handle stays Taken for ever whatever is done on any handle, reports closed, and closing it leaves the transport open; configuration writes on one handle never affect another. Tied to /repo by differential runs over all short histories and random long ones on real Channel objects (in-place list mutation probes aliasing).",
         "Trusted: Coq kernel + vm_compute; hand-written model coq/Own.v (I/O abstracted to reaches-transport-or-raises); the correspondence harness; LIFO borrow contexts.",
         "DESIGN.md 8/C07"),
 "C13": ("Coq proof over a model of Machine.__enter__/__exit__ + ExitStack unwinding + PowerControl + ConsoleConnector with an arbitrary fault oracle (session lemmas, balance invariant by induction over programs) + correspondence on dynamically composed instrumented machine classes",
         "Machine-checked theorems, for EVERY fault pattern (a list of booleans consumed one per check point: any number of faults in setup, body, teardown): the first enter runs the init sequence in order then the hook, or unwinds every entered step in reverse order exactly once and propagates; nested enters/exits only count; the last exit tears everything down in reverse whatever raises; a failed power-on still powers off, a failed power_check does not power on; after any program the counter is 0, the stack empty, begins = ends and power-ons = power-offs; power-off sits after the later-started steps and before the connector. Tied to /repo by differential runs over compositions x programs x (no / every single / pairs / random) faults against real machine classes built with type(), plus an independent reference interpreter written from the property text.",
         "Trusted: Coq kernel + vm_compute; hand-written model coq/Machine.v; CPython's contextlib semantics as modelled; the harness' instrumented mixins; the documented stage order is tied by correspondence, not proved about Python's MRO.",
         "DESIGN.md 8/C13"),
 "C14": ("Coq proof of the truth invariant (managers' view = trace; trace well-formedness) by mutual induction over teardown/leave/enter and structural induction over request programs, for every fault pattern + correspondence with a real tbot.Context using tbot's own from_context chains",
         "Machine-checked theorems over an executable model of InstanceManager/Context: in every reachable state and for every fault pattern the managers' view of what is alive equals the truth, the trace is well formed (never two live instances of a class, teardown only of the live one hence at most once, hand-over only of the live instance), a teardown always clears the manager and never revives anything, and under keep_alive nothing is alive after the outermost context is left, whatever raised. Partial: leak-freedom without keep_alive and dependants-first ordering are decided by correspondence + an independent trace oracle only; the ordering clause is refuted under machine faults with reset_on_error (known finding D14, theorem C14_dependants_first_refuted).",
         "Trusted: Coq kernel + vm_compute; hand-written model coq/Context.v (machine = one init and one teardown check point; chain-like dependency table); the correspondence harness with instrumented dummy classes. Known finding: C14:machine-fault-resets-shared-prerequisite-under-reset_on_error.",
         "DESIGN.md 8/C14"),
 "C15": ("Coq: clause theorems on the implementation model + an executable reference model (ContextSpec.v) written from the documentation; three-way correspondence real tbot.Context = implementation model = reference model on every generated program",
         "Machine-checked clause theorems (shared request yields the same instance with no re-initialisation; keep_alive keeps it between requests; an exclusive request latches, blocks every other request with ContextError leaving the state untouched, and tears down at its end even under keep_alive; reset_on_error tears down before the exception reaches the caller, skips excepted; without reset_on_error an exception leaves exactly the state of a normal exit). PARTIAL: the equality of the observable trace with the reference model for all programs is not proved; it is decided by evaluation of both Coq models against the real implementation on every generated program (exhaustive pairs of requests over 3 classes x flag combinations, random programs to depth 4).",
         "Trusted: Coq kernel + vm_compute; hand-written models coq/Context.v and coq/ContextSpec.v (rules D1-D10 from the docs, U1-U3 undocumented corners specified as observed); the correspondence harness; no machine faults in C15's programs.",
         "DESIGN.md 8/C15"),
 "C12": ("Coq: exactness of the host check at every Path-taking entry point + normal-form theorems over an environment model of PurePosixPath; three correspondences (tbot Path = model, real pathlib = model, tbot Path = real pathlib as oracle) + host-taking entry points outside Path (escape, redirection tokens, Background)",
         "Machine-checked theorems: construct / join / reflected division / relative_to / is_relative_to raise WrongHostError iff an argument belongs to a foreign machine, at_host iff the hosts differ, otherwise the operation is pathlib's on the unwrapped segments; parsing always yields a normal form and re-wrapping a normal form is the identity (why tbot's Path(host, result) pattern is harmless). The behaviour of PurePosixPath itself is an environment model (validated against the real pathlib on every run), and the per-operation agreement of tbot.Path with pathlib is decided by exhaustive differential runs (all segment tuples up to length 2 x every operation, random sequences), not by proof. Known finding: a CPython corner of with_suffix.",
         "Trusted: Coq kernel + vm_compute; environment model coq/PosixPath.v of CPython 3.12.1 pathlib; the harness (machines compared via Machine.__eq__); match() only via oracle.",
         "DESIGN.md 8/C12"),
 "C20": ("Coq proof that parsing the generated ssh / scp command lines returns exactly the configured parameters (for all configurations, strings, option lists) and that copy() forwards the remote machine's parameters in every branch + correspondence with recording lab-host stand-ins over the full configuration grid",
         "Machine-checked theorems over an executable model of SSHConnector._connect's argv, _scp_copy's argv and copy()'s host-pair dispatch: reading the ssh command line back yields exactly user@host, port, identity/password, batch mode unless a password is used, host-key checking off iff configured, multiplexing iff enabled, every extra option in order; scp carries the same parameters (options up to order) and the caller's operands for both directions; every scp branch of copy() uses the REMOTE machine's parameters on the local side; unsupported pairings raise. Tied to /repo by running the real _connect and copy() against recording hosts over the whole grid (configs x auth kinds x multiplexing x 7 pairings x 2 directions) with an independent command-line reader as oracle.",
         "Trusted: Coq kernel + vm_compute; hand-written model coq/SshScp.v; a stub paramiko module (configuration properties and dispatch only); OpenSSH option semantics not modelled; distinct machines = distinct classes.",
         "DESIGN.md 8/C20"),
 "C16": ("Coq proof by induction over testcase trees (custom induction principle for the nested tree type) and over the list of top-level testcases + correspondence: every generated forest is rendered as a Python module and run through both command lines in subprocesses",
         "Machine-checked theorems over an executable model of the testcase block, the decorators and the CLI try/except ladder: begin/end events are well nested for every tree, an end event says success exactly when the body finished without an exception and skipped exactly when the body raised the skip exception (which then yields None to the caller), the nesting level is restored, the exit status is 0 with a final SUCCESS iff no exception escaped a top-level testcase, otherwise 1 (130 for a keyboard interrupt) with an exception event and FAILURE, and no testcase after the failing one is run or reported. Tied to /repo by running both real CLIs (tbot.main, tbot.newbot) on all trees up to the node bound and on sequences of top-level testcases, reading the JSON log with the harness' own reader.",
         "Trusted: Coq kernel + vm_compute; hand-written model coq/Testcase.v; the module renderer and log reader of the harness; exception kinds Exception / KeyboardInterrupt / SkipException only.",
         "DESIGN.md 8/C16"),
 "C17": ("Coq proof by induction over write sequences (stored text, printed text, cursor invariant) and over the log parser's loop with a measure (every document read back for every read size) + correspondence with the real EventIO, the real log file and tools/logparser.py",
         "Machine-checked theorems over an executable model of tbot.log.EventIO (write/_print_lines/close) and of the chunked reader in tools/logparser.py: the stored message of an event is the concatenation of everything written (each write sanitised as documented), for ANY splitting of the text over write calls the terminal shows exactly the stored text with the prefix at every line start plus a final newline, nothing is printed above the verbosity threshold, erasing the inserted prefixes from the printed text leaves the stored text (each character once), and the parser returns every document of a log file in order for EVERY read size n > 0 - proved for any codec with the framing properties and for the concrete brace scanner. Tied to /repo by running the real EventIO with captured stdout, the real log file writer and the real logparser on generated event sequences and chunk sizes. json.dumps/json.JSONDecoder are an environment model (the scanner is validated against raw_decode on every run).",
         "Trusted: Coq kernel + vm_compute; hand-written model coq/LogEvent.v; CPython's json module modelled by a brace scanner (validated, not verified); terminal colour codes outside the model (CLICOLOR off).",
         "DESIGN.md 8/C17"),
 "C19": ("Coq proof that _hush_quote is lossless through a model of U-Boot's hush parser (induction over argument lists and strings) and that exec / exec0 / env return exactly output, status and value for every fragmentation of the console's reaction (composition of the channel theorems of C02/C03) + correspondence of the real UBootShell with the model over a simulated console",
         "Machine-checked theorems: for every argument list without CR/LF/0x03/0x04 the bytes tbot sends are read by the hush model as exactly the arguments (one word each, no expansion, separator or comment); for every fragmentation, delay pattern and partial-write behaviour exec returns exactly the text between the echoed command and the next prompt and the printed status, sends exactly the two lines and leaves the channel in sync - also for the crc32/'=> ' special case; exec0 raises iff the status is non-zero; env set-then-get returns the value (theorem for ASCII values, non-ASCII by correspondence). The hush parser itself is an environment model transcribed from cli_hush.c (no U-Boot in the sandbox; cross-checked against a second transcription only). Outputs containing the prompt at an inspection point are outside the theorems (sentinel-prompt limitation, hypothesis prompt_only_at_end).",
         "Trusted: Coq kernel + vm_compute; hand-written models coq/Hush.v, coq/Session.v, coq/Channel.v; the simulated console of the harness; classic hush parser semantics as transcribed.",
         "DESIGN.md 8/C19"),
}
NOT_YET = "check not built yet (work in progress; will be claimed once its Coq theorems and correspondence check exist)"

def main():
    m = {
     "version": 1,
     "setup_cmd": "./check --setup",
     "hooks": {
      "guard": "TBOT_VERIF_HOOKS",
      "enable": "no source hooks are needed: the harness substitutes a scripted ChannelIO and a virtual clock from outside (MANIFEST.hooks.source_commits is empty)",
      "baseline_off_cmd": "cd /repo && /venv/bin/python -m pytest -ra -q -p no:cacheprovider --timeout=900 --continue-on-collection-errors",
      "source_commits": [],
      "add_only": True,
     },
     "engines": [
      {"name": "coq-model+correspondence", "path": "check", "serves_properties": sorted(CLAIMED),
       "kind_free_text": "Coq 8.16.1 theorems over hand-written executable models (coq/*.v), tied to /repo by differential runs of model (vm_compute) and implementation on generated cases; independent Python oracles turn mismatches into concrete property violations"}],
     "checks": [],
     "notes": "See DESIGN.md. ./check Cxx --tier quick|thorough ; ./check Cxx --replay <file>. known_findings.json lists recorded/fixed defects.",
     "not_applicable": [],
    }
    for p in PROPS:
        pid = p["id"]
        if pid in CLAIMED:
            tech, text, note, ref = CLAIMED[pid]
            m["checks"].append({
             "property_id": pid,
             "quick_cmd": f"./check {pid} --tier quick",
             "thorough_cmd": f"./check {pid} --tier thorough",
             "evidence_file": f"evidence/{pid}.json",
             "replay_cmd_template": f"./check {pid} --replay {{path}}",
             "engine": "coq-model+correspondence",
             "level_claimed": {"category": "proof", "text": text, "design_ref": ref},
             "level_note": note,
             "technique": tech,
            })
        else:
            m["not_applicable"].append({"property_id": pid, "reason": NOT_YET})
    json.dump(m, open(os.path.join(ROOT, "MANIFEST.json"), "w"), indent=1)

if __name__ == "__main__":
    main()
