#!/bin/bash
# runs every claimed check (quick by default) on the current tree and prints one line per property
T=${1:-quick}
cd /verif
for P in $(python3 -c "import json;print(' '.join(c['property_id'] for c in json.load(open('MANIFEST.json'))['checks']))"); do
  out=$(./check $P --tier $T 2>&1 | grep -v conda)
  echo "$P rc=$? $(echo "$out" | grep -E 'obligations' | head -1) $(echo "$out" | grep -c '^VIOLATION') violations $(echo "$out" | grep -c '^KNOWN') known"
done
rm -rf evidence/replay
