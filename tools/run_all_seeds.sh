#!/bin/bash
# usage: run_all_seeds.sh [pattern] : replays every stored seed (applies its patch to /repo, runs the property's quick
# check, reverts); one line per seed in seeded/RESULTS.txt.  Mutates /repo while running: run nothing else meanwhile.
cd /verif
out=seeded/RESULTS.txt
: > $out
for d in seeded/${1:-C}*-m*; do
  s=$(basename $d); p=${s%%-*}
  r=$(tools/run_seed.sh $s $p quick 2>&1 | grep -v conda)
  n=$(echo "$r" | grep -c '^VIOLATION' )
  nf=$(echo "$r" | grep -c 'no-failing-input-found')
  if [ "$n" -gt 0 ] && [ "$n" -gt "$nf" ]; then st="DETECTED (concrete input)"; elif [ "$n" -gt 0 ]; then st="DETECTED (no failing input)"; else st="MISSED"; fi
  echo "$s: $st" | tee -a $out
done
git -C /repo status --short | head -3
