#!/bin/bash
# usage: run_seed.sh <seed-dir-name> [prop] [tier] : applies the seeded patch to /repo, runs the check, reverts.
# The evidence file of the property is saved and restored: evidence committed in /verif must come from the unchanged tree.
S=$1; P=${2:-${S%%-*}}; T=${3:-quick}
cd /verif
cp evidence/$P.json /tmp/evidence_$P.json.bak 2>/dev/null
git -C /repo apply /verif/seeded/$S/patch.diff || { echo "$S: APPLY FAILED"; exit 2; }
out=$(./check $P --tier $T 2>&1 | grep -v conda)
git -C /repo checkout -- .
cp /tmp/evidence_$P.json.bak evidence/$P.json 2>/dev/null
echo "$S [$P $T]: $(echo "$out" | grep -c '^VIOLATION') violation line(s); $(echo "$out" | grep -E 'obligations' | head -1)"
echo "$out" | grep -E '^VIOLATION|BROKEN' | head -4
rm -rf /verif/evidence/replay
