#!/usr/bin/env python3
"""translate.py -- regenerates a Coq file from the CURRENT source of /repo (python `ast`, fail-closed).

What is translated (everything else of the development is hand-written and tied to the code by correspondence):

  tbot/machine/board/uboot.py   _hush_find_unsafe (the character class) and _hush_quote (the whole function)
                                -> gen_is_safe, gen_hush_quote
  tbot/machine/linux/bash.py    TBOT_PROMPT, the _write_blacklist literal and the literal lines _init_shell sends
  tbot/machine/linux/ash.py     (the same)            -> GEN_<SH>_PROMPT, GEN_<SH>_BL, GEN_<SH>_LINES
  tbot/machine/linux/util.py    the probe of wait_for_shell, the line and the answer of shell_sanity_check
                                -> GEN_PROBE, GEN_PROBE_ANSWER, GEN_SANITY, GEN_SANITY_ANSWER
  tbot/machine/channel/channel.py, subprocess.py
                                READ_CHUNK_SIZE, the slice size of send(), the echo length computed by send(),
                                MIN_READ_WAIT -> GEN_READ_CHUNK_SIZE, GEN_SEND_SLICE, gen_readback_len, GEN_MINW
  tbot/machine/board/linux.py, uboot.py
                                login / password / askfirst prompts, the default autoboot regex (translated into the
                                regex type of coq/Regex.v) and keys, U-Boot's black-list, the polling constants
  tbot/log.py                   the replace chain of EventIO.write -> gen_sanitize
  tbot/machine/linux/path.py    write_bytes: line width, death string, the command line's words

coq/genproofs/ProofGen.v (hand-written, stable) proves that these generated definitions ARE the ones the theorems
speak about (gen_hush_quote s = hush_quote s for every s; the constants are equal).  A source change that alters any of
them breaks that proof; a source change the translator does not understand makes the translation itself fail
(reported as a broken obligation: the tie between code and model is no longer shown).

usage: translate.py <repo> <out.v>      exit 0 and the file written, or exit 1 and the reason on stderr
"""
import ast
import os
import sys


class Untranslatable(Exception):
    pass


def need(cond, what):
    if not cond:
        raise Untranslatable(what)


def nlist(bs):
    return "[" + "; ".join(str(int(b)) for b in bs) + "]%N" if len(bs) else "(@nil N)"


def codepoints(s):
    return nlist([ord(c) for c in s])


def parse(repo, rel):
    path = os.path.join(repo, rel)
    with open(path, encoding="utf-8") as f:
        return ast.parse(f.read(), path)


def find_func(tree, name, cls=None):
    scope = tree.body
    if cls is not None:
        cs = [n for n in tree.body if isinstance(n, ast.ClassDef) and n.name == cls]
        need(len(cs) == 1, f"class {cls} not found exactly once")
        scope = cs[0].body
    fs = [n for n in scope if isinstance(n, ast.FunctionDef) and n.name == name]
    need(len(fs) == 1, f"function {name} not found exactly once")
    return fs[0]


# ------------------------------------------------------------------ uboot.py: the quoting of one argument
def parse_class(rx):
    """a negated character class over ASCII: returns (ranges, literals) of the SAFE characters"""
    need(rx.startswith("[^") and rx.endswith("]") and "]" not in rx[2:-1] and "[" not in rx[2:-1], f"regex {rx!r} is not a single negated character class")
    body = rx[2:-1]
    ranges, lits = [], []
    i = 0
    while i < len(body):
        c = body[i]
        if c == "\\":
            need(i + 1 < len(body), "dangling backslash in the character class")
            e = body[i + 1]
            if e == "w":
                ranges += [(48, 57), (65, 90), (97, 122)]
                lits.append(95)
            elif e == "d":
                ranges.append((48, 57))
            elif e in "\\-]^.[":
                lits.append(ord(e))
            else:
                raise Untranslatable(f"escape \\{e} in the character class is not supported")
            i += 2
            continue
        if i + 2 < len(body) and body[i + 1] == "-":
            hi = body[i + 2]
            need(hi != "\\", "range ending in an escape is not supported")
            need(ord(c) <= ord(hi), "reversed range")
            ranges.append((ord(c), ord(hi)))
            i += 3
            continue
        lits.append(ord(c))
        i += 1
    need(all(x < 128 for x in lits) and all(hi < 128 for _, hi in ranges), "non-ASCII in the character class")
    return ranges, lits


def const_str(node, what):
    need(isinstance(node, ast.Constant) and isinstance(node.value, str), f"{what}: expected a string literal")
    return node.value


def translate_hush(repo, out):
    tree = parse(repo, "tbot/machine/board/uboot.py")
    # _hush_find_unsafe = re.compile(<literal>, re.ASCII).search
    asg = [n for n in tree.body if isinstance(n, ast.Assign) and len(n.targets) == 1 and isinstance(n.targets[0], ast.Name) and n.targets[0].id == "_hush_find_unsafe"]
    need(len(asg) == 1, "_hush_find_unsafe is not assigned exactly once at module level")
    v = asg[0].value
    need(isinstance(v, ast.Attribute) and v.attr == "search" and isinstance(v.value, ast.Call), "_hush_find_unsafe is not <re.compile(...)>.search")
    call = v.value
    need(ast.unparse(call.func) == "re.compile" and len(call.args) == 2 and not call.keywords and ast.unparse(call.args[1]) == "re.ASCII",
         "_hush_find_unsafe is not re.compile(<pattern>, re.ASCII).search")
    ranges, lits = parse_class(const_str(call.args[0], "the pattern of _hush_find_unsafe"))

    f = find_func(tree, "_hush_quote")
    need([a.arg for a in f.args.args] == ["s"] and not f.args.vararg and not f.args.kwarg, "_hush_quote does not take exactly (s)")
    body = [n for n in f.body if not (isinstance(n, ast.Expr) and isinstance(n.value, ast.Constant))]
    need(len(body) == 4, f"_hush_quote has {len(body)} statements, expected 4")
    s0, s1, s2, s3 = body
    # if not s: return <literal>
    need(isinstance(s0, ast.If) and ast.unparse(s0.test) == "not s" and not s0.orelse and len(s0.body) == 1 and isinstance(s0.body[0], ast.Return),
         "first statement is not `if not s: return <literal>`")
    empty = const_str(s0.body[0].value, "the result for the empty string")
    # if _hush_find_unsafe(s) is None: return s
    need(isinstance(s1, ast.If) and ast.unparse(s1.test) == "_hush_find_unsafe(s) is None" and not s1.orelse and len(s1.body) == 1
         and isinstance(s1.body[0], ast.Return) and ast.unparse(s1.body[0].value) == "s", "second statement is not `if _hush_find_unsafe(s) is None: return s`")
    # s = s.replace(a, b).replace(c, d)...
    need(isinstance(s2, ast.Assign) and len(s2.targets) == 1 and ast.unparse(s2.targets[0]) == "s", "third statement does not assign to s")
    reps = []
    e = s2.value
    while isinstance(e, ast.Call):
        need(isinstance(e.func, ast.Attribute) and e.func.attr == "replace" and len(e.args) == 2 and not e.keywords, "third statement is not a chain of s.replace(a, b)")
        a, b = const_str(e.args[0], "replace pattern"), const_str(e.args[1], "replacement")
        need(len(a) == 1, f"replace pattern {a!r} is not a single character")
        reps.append((a, b))
        e = e.func.value
    need(ast.unparse(e) == "s" and reps, "third statement is not a chain of replace calls on s")
    reps.reverse()
    # return <lit> + s + <lit>
    need(isinstance(s3, ast.Return) and isinstance(s3.value, ast.BinOp) and isinstance(s3.value.op, ast.Add) and isinstance(s3.value.left, ast.BinOp)
         and isinstance(s3.value.left.op, ast.Add) and ast.unparse(s3.value.left.right) == "s", "last statement is not `return <literal> + s + <literal>`")
    pre, post = const_str(s3.value.left.left, "opening quote"), const_str(s3.value.right, "closing quote")

    rng = " || ".join(f"(({lo} <=? c) && (c <=? {hi}))" for lo, hi in ranges) or "false"
    out.append("(* from tbot/machine/board/uboot.py: _hush_find_unsafe, _hush_quote *)")
    out.append(f"Definition gen_is_safe (c : N) : bool := ({rng})%N || mem_N c {nlist(lits)}.")
    step = "s"
    for n, (a, b) in enumerate(reps):
        out.append(f"Definition gen_rep{n} (c : N) : list N := if (c =? {ord(a)})%N then {codepoints(b)} else [c].")
        step = f"(flat_map gen_rep{n} {step})"
    out.append("Definition gen_hush_quote (s : list N) : list N :=")
    out.append(f"  match s with\n  | [] => {codepoints(empty)}\n  | _ => if forallb gen_is_safe s then s else {codepoints(pre)} ++ {step} ++ {codepoints(post)}\n  end.")
    out.append("")


# ------------------------------------------------------------------ bash.py / ash.py: constants of _init_shell
def eval_bytes(node, env):
    """constant bytes/str expressions: literals, +, names bound to constants, constant slices"""
    if isinstance(node, ast.Constant) and isinstance(node.value, (bytes, str)):
        return node.value.encode("utf-8") if isinstance(node.value, str) else node.value
    if isinstance(node, ast.BinOp) and isinstance(node.op, ast.Add):
        return eval_bytes(node.left, env) + eval_bytes(node.right, env)
    if isinstance(node, ast.Name) and node.id in env:
        return env[node.id]
    if isinstance(node, ast.Subscript) and isinstance(node.slice, ast.Slice) and node.slice.step is None:
        base = eval_bytes(node.value, env)

        def idx(x):
            if x is None:
                return None
            need(isinstance(x, ast.Constant) and isinstance(x.value, int), "non-constant slice bound")
            return x.value
        return base[idx(node.slice.lower):idx(node.slice.upper)]
    raise Untranslatable(f"expression {ast.unparse(node)!r} is not a constant byte string")


def translate_shell(repo, rel, cls, tag, out):
    tree = parse(repo, rel)
    env = {}
    for n in tree.body:
        if isinstance(n, ast.Assign) and len(n.targets) == 1 and isinstance(n.targets[0], ast.Name) and n.targets[0].id == "TBOT_PROMPT":
            env["TBOT_PROMPT"] = eval_bytes(n.value, {})
    need("TBOT_PROMPT" in env, f"{rel}: TBOT_PROMPT is not a module-level constant")
    f = find_func(tree, "_init_shell", cls)
    bl, lines = None, []
    for n in ast.walk(f):
        if isinstance(n, ast.Assign) and len(n.targets) == 1 and ast.unparse(n.targets[0]) == "self.ch._write_blacklist":
            need(bl is None, "the black-list is assigned twice")
            need(isinstance(n.value, ast.List) and all(isinstance(e, ast.Constant) and isinstance(e.value, int) for e in n.value.elts), "the black-list is not a list of integer literals")
            bl = [e.value for e in n.value.elts]
    need(bl is not None, f"{rel}: no assignment to self.ch._write_blacklist in _init_shell")
    # the sendline calls in source order (ast.walk is breadth-first: sort by position)
    calls = sorted((n for n in ast.walk(f) if isinstance(n, ast.Call) and ast.unparse(n.func) == "self.ch.sendline"), key=lambda n: (n.lineno, n.col_offset))
    for c in calls:
        need(len(c.args) == 1 and not c.keywords, f"sendline call at line {c.lineno} has unexpected arguments")
        a = c.args[0]
        if isinstance(a, ast.JoinedStr):
            need(len(a.values) == 2 and isinstance(a.values[0], ast.Constant) and isinstance(a.values[1], ast.FormattedValue), f"f-string at line {c.lineno} is not <literal>{{number}}")
            lines.append((1, a.values[0].value.encode()))
        else:
            lines.append((0, eval_bytes(a, env)))
    out.append(f"(* from {rel}: TBOT_PROMPT, {cls}._init_shell *)")
    out.append(f"Definition GEN_{tag}_PROMPT : list N := {nlist(env['TBOT_PROMPT'])}.")
    out.append(f"Definition GEN_{tag}_BL : list N := {nlist(bl)}.")
    out.append(f"(* the lines sent by _init_shell in order; (1, p) = p followed by a decimal number computed at run time *)")
    out.append(f"Definition GEN_{tag}_LINES : list (nat * list N) :=\n  [" + ";\n   ".join(f"({k}%nat, {nlist(b)})" for k, b in lines) + "].")
    out.append("")


def translate_util(repo, out):
    tree = parse(repo, "tbot/machine/linux/util.py")
    f = find_func(tree, "shell_sanity_check")
    sends = [n for n in ast.walk(f) if isinstance(n, ast.Call) and ast.unparse(n.func).endswith(".sendline")]
    need(len(sends) == 1 and len(sends[0].args) == 1, "shell_sanity_check does not send exactly one line")
    line = const_str(sends[0].args[0], "the sanity-check line")
    cmps = [n for n in ast.walk(f) if isinstance(n, ast.Compare) and len(n.ops) == 1 and isinstance(n.ops[0], ast.NotEq)]
    need(len(cmps) == 1, "shell_sanity_check does not compare the output with one literal")
    answer = const_str(cmps[0].comparators[0], "the sanity-check answer")
    f = find_func(tree, "wait_for_shell")
    sends = [n for n in ast.walk(f) if isinstance(n, ast.Call) and ast.unparse(n.func).endswith(".sendline")]
    need(len(sends) == 1 and len(sends[0].args) == 1, "wait_for_shell does not send exactly one kind of line")
    probe = const_str(sends[0].args[0], "the probe line")
    exps = [n for n in ast.walk(f) if isinstance(n, ast.Call) and ast.unparse(n.func).endswith(".expect")]
    need(len(exps) == 1 and len(exps[0].args) >= 1, "wait_for_shell does not call expect exactly once")
    panswer = const_str(exps[0].args[0], "the probe answer")
    # the two timeouts of the probe loop: `timeout = <float>` once before the loop and once in the handler of the
    # TimeoutError; expect() must be called with that variable
    kws = {k.arg: k.value for k in exps[0].keywords}
    need("timeout" in kws and isinstance(kws["timeout"], ast.Name) and kws["timeout"].id == "timeout",
         "wait_for_shell does not pass its `timeout` variable to expect()")
    loops = [n for n in f.body if isinstance(n, ast.While)]
    need(len(loops) == 1, "wait_for_shell does not consist of one while loop")
    def tmo_assigns(nodes):
        return [n for b in nodes for n in ast.walk(b) if isinstance(n, ast.Assign) and len(n.targets) == 1
                and isinstance(n.targets[0], ast.Name) and n.targets[0].id == "timeout"]
    first = tmo_assigns([n for n in f.body if not isinstance(n, ast.While)])
    handlers = [h for n in ast.walk(loops[0]) if isinstance(n, ast.Try) for h in n.handlers]
    need(len(handlers) == 1 and handlers[0].type is not None and ast.unparse(handlers[0].type).endswith("TimeoutError"),
         "the probe loop does not have exactly one handler, for TimeoutError")
    retry = tmo_assigns(handlers[0].body)
    need(len(first) == 1 and len(retry) == 1 and len(tmo_assigns([loops[0]])) == 1,
         "wait_for_shell does not set `timeout` once before the loop and once in the TimeoutError handler")
    def ticks(n, what):
        need(isinstance(n.value, ast.Constant) and isinstance(n.value.value, (int, float)) and not isinstance(n.value.value, bool),
             f"{what} is not a numeric literal")
        return round(n.value.value * 1024)
    out.append("(* from tbot/machine/linux/util.py: wait_for_shell, shell_sanity_check; timeouts in 1/1024 s *)")
    out.append(f"Definition GEN_PROBE_FIRST_TMO : Z := {ticks(first[0], 'the first probe timeout')}%Z.")
    out.append(f"Definition GEN_PROBE_RETRY_TMO : Z := {ticks(retry[0], 'the retry timeout')}%Z.")
    out.append(f"Definition GEN_PROBE : list N := {nlist(probe.encode())}.")
    out.append(f"Definition GEN_PROBE_ANSWER : list N := {nlist(panswer.encode())}.")
    out.append(f"Definition GEN_SANITY : list N := {nlist(line.encode())}.")
    out.append(f"Definition GEN_SANITY_ANSWER : list N := {nlist(answer.encode())}.")
    out.append("")


# ------------------------------------------------------------------ channel.py / subprocess.py: constants and the echo length
def translate_channel(repo, out):
    tree = parse(repo, "tbot/machine/channel/channel.py")
    cs = [n for n in tree.body if isinstance(n, ast.ClassDef) and n.name == "Channel"]
    need(len(cs) == 1, "class Channel not found exactly once")
    rc = [n for n in cs[0].body if isinstance(n, ast.Assign) and len(n.targets) == 1 and ast.unparse(n.targets[0]) == "READ_CHUNK_SIZE"]
    need(len(rc) == 1 and isinstance(rc[0].value, ast.Constant) and isinstance(rc[0].value.value, int), "Channel.READ_CHUNK_SIZE is not an integer literal")
    f = find_func(tree, "send", "Channel")
    sl = [n for n in ast.walk(f) if isinstance(n, ast.Call) and ast.unparse(n.func) == "itertools.islice"]
    need(len(sl) == 1 and len(sl[0].args) == 2 and isinstance(sl[0].args[1], ast.Constant) and isinstance(sl[0].args[1].value, int),
         "send() does not cut its payload with one itertools.islice(it, <literal>)")
    ln = [n for n in ast.walk(f) if isinstance(n, ast.Assign) and len(n.targets) == 1 and ast.unparse(n.targets[0]) == "length"]
    need(len(ln) == 1, "send() does not compute `length` exactly once")
    terms = []

    def flat(e):
        if isinstance(e, ast.BinOp) and isinstance(e.op, ast.Add):
            flat(e.left)
            flat(e.right)
        else:
            terms.append(e)
    flat(ln[0].value)
    coq_terms = []
    for t in terms:
        u = ast.unparse(t)
        if u == "len(chunk)":
            coq_terms.append("length s")
        elif isinstance(t, ast.Call) and ast.unparse(t.func) == "chunk.count" and len(t.args) == 1 and isinstance(t.args[0], ast.Constant) \
                and isinstance(t.args[0].value, bytes) and len(t.args[0].value) == 1:
            coq_terms.append(f"count_N {t.args[0].value[0]}%N s")
        else:
            raise Untranslatable(f"term {u!r} of the echo length in send() is not len(chunk) or chunk.count(<one byte>)")
    out.append("(* from tbot/machine/channel/channel.py: Channel.READ_CHUNK_SIZE, the slice size and the echo length of send() *)")
    out.append(f"Definition GEN_READ_CHUNK_SIZE : nat := {rc[0].value.value}.")
    out.append(f"Definition GEN_SEND_SLICE : nat := {sl[0].args[1].value}.")
    out.append(f"Definition gen_readback_len (s : list N) : nat := {' + '.join(coq_terms)}.")
    tree = parse(repo, "tbot/machine/channel/subprocess.py")
    mw = [n for n in tree.body if isinstance(n, ast.Assign) and len(n.targets) == 1 and ast.unparse(n.targets[0]) == "MIN_READ_WAIT"]
    need(len(mw) == 1 and isinstance(mw[0].value, ast.Constant) and isinstance(mw[0].value.value, (int, float)), "subprocess.MIN_READ_WAIT is not a number literal")
    units = mw[0].value.value * 5120
    need(abs(units - round(units)) < 1e-6, "MIN_READ_WAIT is not a multiple of 1/5120 s (the time unit of coq/SubIO.v)")
    out.append("(* from tbot/machine/channel/subprocess.py: MIN_READ_WAIT in units of 1/5120 s *)")
    out.append(f"Definition GEN_MINW : Z := {round(units)}%Z.")
    out.append("")


# ------------------------------------------------------------------ board/linux.py, board/uboot.py: prompts, polling
def class_attr(tree, cls, name):
    cs = [n for n in tree.body if isinstance(n, ast.ClassDef) and n.name == cls]
    need(len(cs) == 1, f"class {cls} not found exactly once")
    vs = []
    for n in cs[0].body:
        if isinstance(n, ast.Assign) and len(n.targets) == 1 and ast.unparse(n.targets[0]) == name:
            vs.append(n.value)
        elif isinstance(n, ast.AnnAssign) and ast.unparse(n.target) == name and n.value is not None:
            vs.append(n.value)
    need(len(vs) == 1, f"{cls}.{name} is not assigned exactly once in the class body")
    return vs[0]


def regex_coq(src):
    """bytes regex from the fragment  literal | \\s | \\d | .   each optionally followed by {m,n}  -> a term of Regex.re"""
    atoms, i = [], 0
    while i < len(src):
        c = src[i:i + 1]
        if c == b"\\":
            e = src[i + 1:i + 2]
            need(e in (b"s", b"d"), f"regex escape \\{e.decode()} is not supported")
            atom = "(RCls false [(9, 13); (32, 32)]%N)" if e == b"s" else "(RCls false [(48, 57)]%N)"
            i += 2
        elif c == b".":
            atom, i = "RAny", i + 1
        else:
            need(c not in b"[]()|*+?^$", f"regex operator {c.decode()!r} is not supported")
            atom, i = f"(RChr {src[i]})", i + 1
        if src[i:i + 1] == b"{":
            j = src.index(b"}", i)
            lo, hi = src[i + 1:j].split(b",")
            atom = f"(RRep {atom} {int(lo)} {int(hi)})"
            i = j + 1
        atoms.append(atom)
    need(atoms, "empty regex")
    t = atoms[-1]
    for a in reversed(atoms[:-1]):
        t = f"(RSeq {a} {t})"
    return t


def translate_board(repo, out):
    tree = parse(repo, "tbot/machine/board/linux.py")
    out.append("(* from tbot/machine/board/linux.py: the prompts the login waits for *)")
    for cls, attr, name in (("LinuxBootLogin", "login_prompt", "GEN_LOGIN_P"), ("LinuxBootLogin", "password_prompt", "GEN_PASSWORD_P"),
                            ("AskfirstInitializer", "askfirst_prompt", "GEN_ASKFIRST_P")):
        out.append(f"Definition {name} : list N := {nlist(const_str(class_attr(tree, cls, attr), cls + '.' + attr).encode())}.")
    nopw = class_attr(tree, "LinuxBootLogin", "no_password_timeout")
    need(isinstance(nopw, ast.Constant) and isinstance(nopw.value, (int, float)), "LinuxBootLogin.no_password_timeout default is not a number")
    out.append(f"Definition GEN_NOPW_DEFAULT : Z := {round(nopw.value * 1024)}%Z.      (* units of 2^-10 s *)")
    tree = parse(repo, "tbot/machine/board/uboot.py")
    ab = class_attr(tree, "UBootAutobootIntercept", "autoboot_prompt")
    need(isinstance(ab, ast.Call) and ast.unparse(ab.func) == "re.compile" and len(ab.args) == 1 and isinstance(ab.args[0], ast.Constant)
         and isinstance(ab.args[0].value, bytes), "UBootAutobootIntercept.autoboot_prompt is not re.compile(<bytes literal>)")
    keys = const_str(class_attr(tree, "UBootAutobootIntercept", "autoboot_keys"), "autoboot_keys")
    f = find_func(tree, "_init_shell", "UBootShell")
    bl = [n for n in ast.walk(f) if isinstance(n, ast.Assign) and ast.unparse(n.targets[0]) == "self.ch._write_blacklist"]
    need(len(bl) == 1 and isinstance(bl[0].value, ast.List) and all(isinstance(e, ast.Constant) and isinstance(e.value, int) for e in bl[0].value.elts),
         "UBootShell._init_shell does not assign a list of integer literals to the black-list exactly once")
    polls = [n for n in ast.walk(f) if isinstance(n, ast.Call) and ast.unparse(n.func) == "self.ch.read_until_prompt"]
    sleeps = [n for n in ast.walk(f) if isinstance(n, ast.Call) and ast.unparse(n.func) == "time.sleep"]
    need(len(polls) == 1 and len(polls[0].keywords) == 1 and polls[0].keywords[0].arg == "timeout" and isinstance(polls[0].keywords[0].value, ast.Constant),
         "UBootShell._init_shell does not poll with one read_until_prompt(timeout=<literal>)")
    need(len(sleeps) == 1 and len(sleeps[0].args) == 1 and isinstance(sleeps[0].args[0], ast.Constant), "UBootShell._init_shell does not sleep for one literal time")
    out.append("(* from tbot/machine/board/uboot.py: autoboot prompt and keys, the black-list and the polling of UBootShell._init_shell *)")
    out.append(f"Definition gen_autoboot_re : re := {regex_coq(ab.args[0].value)}.")
    out.append(f"Definition GEN_AUTOBOOT_KEYS : list N := {nlist(keys.encode())}.")
    out.append(f"Definition GEN_UB_BL : list N := {nlist([e.value for e in bl[0].value.elts])}.")
    out.append(f"Definition GEN_POLL : Z := {round(polls[0].keywords[0].value.value * 1024)}%Z.")
    out.append(f"Definition GEN_POLL_SLEEP : Z := {round(sleeps[0].args[0].value * 1024)}%Z.")
    out.append("")


# ------------------------------------------------------------------ log.py: what EventIO.write strips / normalises
def translate_log(repo, out):
    tree = parse(repo, "tbot/log.py")
    f = find_func(tree, "write", "EventIO")
    asg = [n for n in f.body if isinstance(n, ast.Assign) and len(n.targets) == 1 and ast.unparse(n.targets[0]) == "s"]
    need(len(asg) == 1, "EventIO.write does not assign to s exactly once")
    reps, e = [], asg[0].value
    while isinstance(e, ast.Call):
        need(isinstance(e.func, ast.Attribute) and e.func.attr == "replace" and len(e.args) == 2 and not e.keywords, "EventIO.write: not a chain of s.replace(a, b)")
        a, b = const_str(e.args[0], "replace pattern"), const_str(e.args[1], "replacement")
        need(a != "", "empty replace pattern")
        reps.append((a, b))
        e = e.func.value
    need(ast.unparse(e) == "s" and reps, "EventIO.write: the chain does not start from s")
    reps.reverse()
    term = "s"
    for a, b in reps:
        term = f"(replace_all {codepoints(a)} {codepoints(b)} {term})"
    out.append("(* from tbot/log.py: the clean-up chain of EventIO.write *)")
    out.append(f"Definition gen_sanitize (s : list N) : list N :=\n  {term}.")
    out.append("")


# ------------------------------------------------------------------ path.py: write_bytes
def translate_path(repo, out):
    tree = parse(repo, "tbot/machine/linux/path.py")
    f = find_func(tree, "write_bytes", "Path")
    sl = [n for n in ast.walk(f) if isinstance(n, ast.Call) and ast.unparse(n.func) == "itertools.islice"]
    need(len(sl) == 1 and len(sl[0].args) == 2 and isinstance(sl[0].args[1], ast.Constant) and isinstance(sl[0].args[1].value, int),
         "write_bytes does not cut the encoding with one itertools.islice(it, <literal>)")
    enc = [n for n in ast.walk(f) if isinstance(n, ast.Call) and ast.unparse(n.func) == "base64.b64encode"]
    need(len(enc) == 1 and ast.unparse(enc[0].args[0]) == "data", "write_bytes does not encode `data` with base64.b64encode exactly once")
    ds = [n for n in ast.walk(f) if isinstance(n, ast.Call) and ast.unparse(n.func).endswith(".with_death_string")]
    need(len(ds) == 1 and len(ds[0].args) >= 1, "write_bytes does not register exactly one death string")
    tee = const_str(ds[0].args[0], "the death string of write_bytes")
    runs = [n for n in ast.walk(f) if isinstance(n, ast.Call) and ast.unparse(n.func) == "self.host.run"]
    need(len(runs) == 1, "write_bytes does not call self.host.run exactly once")
    words = []
    for a in runs[0].args:
        if isinstance(a, ast.Starred) and isinstance(a.value, ast.List):
            words += [const_str(e, "command word") for e in a.value.elts]
        elif isinstance(a, ast.Constant) and isinstance(a.value, str):
            words.append(a.value)
        else:
            words.append("<" + ast.unparse(a) + ">")
    out.append("(* from tbot/machine/linux/path.py: Path.write_bytes *)")
    out.append(f"Definition GEN_B64_WIDTH : nat := {sl[0].args[1].value}.")
    out.append(f"Definition GEN_TEE_STR : list N := {nlist(tee.encode())}.")
    out.append("Definition GEN_WRITE_BYTES_CMD : list (list N) :=\n  [" + "; ".join(nlist(w.encode()) for w in words) + "].")
    out.append("")


# ------------------------------------------------------------------ the status command and U-Boot's crc32 work-around
def translate_status(repo, out):
    tree = parse(repo, "tbot/machine/linux/util.py")
    f = find_func(tree, "posix_fetch_return_code")
    sends = [n for n in ast.walk(f) if isinstance(n, ast.Call) and ast.unparse(n.func).endswith(".sendline")]
    need(len(sends) == 1 and len(sends[0].args) == 1, "posix_fetch_return_code does not send exactly one line")
    kws = {k.arg: ast.unparse(k.value) for k in sends[0].keywords}
    need(kws == {"read_back": "True"}, "posix_fetch_return_code does not send its line with read_back=True")
    lx = const_str(sends[0].args[0], "the status command of posix_fetch_return_code")

    tree = parse(repo, "tbot/machine/board/uboot.py")
    f = find_func(tree, "exec", "UBootShell")
    sends = [n for n in ast.walk(f) if isinstance(n, ast.Call) and ast.unparse(n.func) == "self.ch.sendline"]
    need(len(sends) == 2, "UBootShell.exec does not send exactly two lines")
    need(ast.unparse(sends[0].args[0]) == "cmd", "UBootShell.exec does not send the escaped command first")
    for sd in sends:
        need({k.arg: ast.unparse(k.value) for k in sd.keywords} == {"read_back": "True"}, "UBootShell.exec sends a line without read_back=True")
    ub = const_str(sends[1].args[0], "the status command of UBootShell.exec")
    # if args[0] == "crc32" and self.ch.prompt in ("=> ", b"=> "): override_prompt = "\n=> "  else: override_prompt = None
    ifs = [n for n in f.body if isinstance(n, ast.If)]
    need(len(ifs) == 1, "UBootShell.exec does not have exactly one top-level if (the crc32 work-around)")
    t = ifs[0].test
    need(isinstance(t, ast.BoolOp) and isinstance(t.op, ast.And) and len(t.values) == 2, "the crc32 test is not `a and b`")
    a, b = t.values
    need(isinstance(a, ast.Compare) and len(a.ops) == 1 and isinstance(a.ops[0], ast.Eq) and ast.unparse(a.left) == "args[0]",
         "the crc32 test does not compare args[0]")
    cmd = const_str(a.comparators[0], "the command of the crc32 work-around")
    need(isinstance(b, ast.Compare) and len(b.ops) == 1 and isinstance(b.ops[0], ast.In) and ast.unparse(b.left) == "self.ch.prompt"
         and isinstance(b.comparators[0], ast.Tuple), "the crc32 test does not look the prompt up in a tuple")
    alts = set()
    for e in b.comparators[0].elts:
        need(isinstance(e, ast.Constant) and isinstance(e.value, (str, bytes)), "the prompt alternatives of the crc32 test are not literals")
        alts.add(e.value.encode() if isinstance(e.value, str) else e.value)
    need(len(alts) == 1, "the crc32 test accepts more than one prompt")
    def ovr(body, what):
        asg = [n for n in body if isinstance(n, ast.Assign) and len(n.targets) == 1 and ast.unparse(n.targets[0]) == "override_prompt"]
        need(len(asg) == 1, f"the {what} branch of the crc32 test does not assign override_prompt once")
        return asg[0].value
    yes, no = ovr(ifs[0].body, "then"), ovr(ifs[0].orelse, "else")
    need(isinstance(no, ast.Constant) and no.value is None, "without the work-around override_prompt is not None")
    ov = const_str(yes, "the overriding prompt")
    out.append("(* from tbot/machine/linux/util.py: posix_fetch_return_code; tbot/machine/board/uboot.py: UBootShell.exec *)")
    out.append(f"Definition GEN_ECHO_Q : list N := {nlist(lx.encode())}.")
    out.append(f"Definition GEN_UB_ECHO_Q : list N := {nlist(ub.encode())}.")
    out.append(f"Definition GEN_UB_CRC_CMD : list N := {codepoints(cmd)}.")
    out.append(f"Definition GEN_UB_CRC_PROMPT : list N := {nlist(list(alts)[0])}.")
    out.append(f"Definition GEN_UB_CRC_OVERRIDE : list N := {nlist(ov.encode())}.")
    out.append("Definition gen_ub_override (args : list (list N)) (c : chan) : option (list N) :=")
    out.append("  match args with")
    out.append("  | a0 :: _ =>")
    out.append("      if list_N_eqb a0 GEN_UB_CRC_CMD && match prompt c with Some (SLit p) => list_N_eqb p GEN_UB_CRC_PROMPT | _ => false end")
    out.append("      then Some GEN_UB_CRC_OVERRIDE else None")
    out.append("  | [] => None")
    out.append("  end.")
    out.append("")


# ------------------------------------------------------------------ util.py: posix_environment (the lines of env())
def translate_env(repo, out):
    tree = parse(repo, "tbot/machine/linux/util.py")
    f = find_func(tree, "posix_environment")
    tops = [n for n in f.body if isinstance(n, ast.If)]
    need(len(tops) == 1 and ast.unparse(tops[0].test) == "value is not None", "posix_environment is not `if value is not None: ... else: ...`")
    setb, getb = tops[0].body, tops[0].orelse

    def fparts(node, what):
        need(isinstance(node, ast.Call) and ast.unparse(node.func) == "linux.Raw" and len(node.args) == 1 and isinstance(node.args[0], ast.JoinedStr),
             f"{what}: expected linux.Raw(f'...')")
        return node.args[0].values

    # set: mach.exec0("export", linux.Raw(f"{mach.escape(var)}={mach.escape(value)}"))
    calls = [n for b in setb for n in ast.walk(b) if isinstance(n, ast.Call) and ast.unparse(n.func) == "mach.exec0"]
    need(len(calls) == 1 and len(calls[0].args) == 2 and not calls[0].keywords, "the set branch does not call mach.exec0 with two arguments once")
    cmd = const_str(calls[0].args[0], "the command of the set branch")
    parts = fparts(calls[0].args[1], "the assignment word")
    need(len(parts) == 3 and isinstance(parts[0], ast.FormattedValue) and ast.unparse(parts[0].value) == "mach.escape(var)"
         and isinstance(parts[1], ast.Constant) and isinstance(parts[1].value, str)
         and isinstance(parts[2], ast.FormattedValue) and ast.unparse(parts[2].value) == "mach.escape(value)"
         and parts[0].conversion == -1 and parts[2].conversion == -1 and parts[0].format_spec is None and parts[2].format_spec is None,
         "the assignment word is not f'{mach.escape(var)}<sep>{mach.escape(value)}'")
    sep = parts[1].value
    # get: if var not in [<names>]: var = mach.escape(var);  return mach.exec0("printf", <fmt>, linux.Raw(f'<pre>{var}<post>'))[:-k]
    need(len(getb) == 2 and isinstance(getb[0], ast.If) and isinstance(getb[1], ast.Return), "the get branch is not `if ...: ...` followed by `return ...`")
    t = getb[0].test
    need(isinstance(t, ast.Compare) and len(t.ops) == 1 and isinstance(t.ops[0], ast.NotIn) and ast.unparse(t.left) == "var"
         and isinstance(t.comparators[0], ast.List) and not getb[0].orelse and len(getb[0].body) == 1
         and ast.unparse(getb[0].body[0]) == "var = mach.escape(var)", "the get branch does not escape var unless it is one of a list of names")
    special = [const_str(e, "a special variable name") for e in t.comparators[0].elts]
    r = getb[1].value
    need(isinstance(r, ast.Subscript) and isinstance(r.slice, ast.Slice) and r.slice.lower is None and r.slice.step is None
         and isinstance(r.slice.upper, ast.UnaryOp) and isinstance(r.slice.upper.op, ast.USub) and isinstance(r.slice.upper.operand, ast.Constant)
         and isinstance(r.slice.upper.operand.value, int), "the get branch does not return <call>[:-k]")
    drop = r.slice.upper.operand.value
    call = r.value
    need(isinstance(call, ast.Call) and ast.unparse(call.func) == "mach.exec0" and len(call.args) >= 2 and not call.keywords,
         "the get branch does not return mach.exec0(...)[:-k]")
    words = [const_str(a, "a word of the read-back command") for a in call.args[:-1]]
    parts = fparts(call.args[-1], "the quoted expansion")
    need(len(parts) == 3 and isinstance(parts[0], ast.Constant) and isinstance(parts[2], ast.Constant)
         and isinstance(parts[1], ast.FormattedValue) and ast.unparse(parts[1].value) == "var" and parts[1].conversion == -1 and parts[1].format_spec is None,
         "the quoted expansion is not f'<pre>{var}<post>'")
    out.append("(* from tbot/machine/linux/util.py: posix_environment *)")
    out.append(f"Definition gen_export_line (var value : list N) : list N :=")
    out.append(f"  sh_quote {codepoints(cmd)} ++ [32%N] ++ sh_quote var ++ {codepoints(sep)} ++ sh_quote value.")
    out.append("Definition gen_get_var (var : list N) : list N :=")
    out.append("  if " + " || ".join(f"list_N_eqb var {codepoints(x)}" for x in special) + " then var else sh_quote var.")
    out.append("Definition gen_get_line (var : list N) : list N :=")
    out.append("  " + " ++ [32%N] ++ ".join(f"sh_quote {codepoints(w)}" for w in words) + f" ++ [32%N] ++ {codepoints(parts[0].value)} ++ gen_get_var var ++ {codepoints(parts[2].value)}.")
    out.append(f"Definition GEN_GET_DROP : nat := {drop}.")
    out.append("")


# ------------------------------------------------------------------ connector/ssh.py: the ssh command line
def translate_ssh(repo, out):
    tree = parse(repo, "tbot/machine/connector/ssh.py")
    f = find_func(tree, "_connect", "SSHConnector")
    need(len(f.body) == 1 and isinstance(f.body[0], ast.With), "SSHConnector._connect is not one with-block")
    body = f.body[0].body

    def word(e, env):
        """one argv element -> Coq term of type list N"""
        if isinstance(e, ast.Constant) and isinstance(e.value, str):
            return codepoints(e.value)
        src = ast.unparse(e)
        if src in env:
            return env[src]
        if isinstance(e, ast.JoinedStr):
            parts = []
            for v in e.values:
                if isinstance(v, ast.Constant):
                    parts.append(codepoints(v.value))
                else:
                    need(isinstance(v, ast.FormattedValue) and v.conversion == -1 and v.format_spec is None and ast.unparse(v.value) in env,
                         f"ssh command line: cannot translate the f-string part {ast.unparse(v)!r}")
                    parts.append(env[ast.unparse(v.value)])
            return "(" + " ++ ".join(parts) + ")"
        raise Untranslatable(f"ssh command line: cannot translate the word {src!r}")

    def wlist(e, env):
        need(isinstance(e, ast.List), f"ssh command line: expected a list literal, got {ast.unparse(e)!r}")
        return "[" + "; ".join(word(x, env) for x in e.elts) + "]" if e.elts else "[]"

    # the authenticator chain
    chain = [n for n in body if isinstance(n, ast.If) and ast.unparse(n.test).startswith("isinstance(authenticator,")]
    need(len(chain) == 1, "SSHConnector._connect does not have one isinstance(authenticator, ...) chain")
    branches, node = {}, chain[0]
    while True:
        t = node.test
        need(isinstance(t, ast.Call) and ast.unparse(t.func) == "isinstance" and ast.unparse(t.args[0]) == "authenticator", "unexpected test in the authenticator chain")
        kind = ast.unparse(t.args[1])
        need(len(node.body) == 1 and isinstance(node.body[0], ast.Assign) and ast.unparse(node.body[0].targets[0]) == "cmd", f"the {kind} branch does not just assign cmd")
        branches[kind] = node.body[0].value
        if len(node.orelse) == 1 and isinstance(node.orelse[0], ast.If):
            node = node.orelse[0]
            continue
        need(any(isinstance(x, ast.Raise) for x in node.orelse), "the authenticator chain does not end by raising")
        break
    need(set(branches) == {"auth.NoneAuthenticator", "auth.PrivateKeyAuthenticator", "auth.PasswordAuthenticator"}, f"unexpected authenticator kinds {sorted(branches)}")
    a_none = wlist(branches["auth.NoneAuthenticator"], {})
    a_key = wlist(branches["auth.PrivateKeyAuthenticator"], {"authenticator.get_key_for_host(h)": "k"})
    a_pass = wlist(branches["auth.PasswordAuthenticator"], {"authenticator.password": "pw"})
    # hk_disable = [...] if self.ignore_hostkey else []
    hk = [n for n in body if isinstance(n, ast.Assign) and ast.unparse(n.targets[0]) == "hk_disable"]
    need(len(hk) == 1 and isinstance(hk[0].value, ast.IfExp) and ast.unparse(hk[0].value.test) == "self.ignore_hostkey", "hk_disable is not `[...] if self.ignore_hostkey else [...]`")
    hk_yes, hk_no = wlist(hk[0].value.body, {}), wlist(hk[0].value.orelse, {})
    # multiplexing = []; if self.use_multiplexing: multiplexing += [...] ...
    mx0 = [n for n in body if isinstance(n, ast.Assign) and ast.unparse(n.targets[0]) == "multiplexing"]
    need(len(mx0) == 1 and wlist(mx0[0].value, {}) == "[]", "multiplexing does not start as []")
    mxif = [n for n in body if isinstance(n, ast.If) and ast.unparse(n.test) == "self.use_multiplexing"]
    need(len(mxif) == 1 and not mxif[0].orelse, "no single `if self.use_multiplexing:` without else")
    adds = []
    for st in mxif[0].body:
        if isinstance(st, ast.AugAssign):
            need(ast.unparse(st.target) == "multiplexing" and isinstance(st.op, ast.Add), "unexpected augmented assignment in the multiplexing block")
            adds.append(wlist(st.value, {"multiplexing_dir.at_host(self.host)": "muxdir"}))
        else:
            need(ast.unparse(st) in ("multiplexing_dir = self.host.workdir / '.ssh-multi'", "self.host.exec0('mkdir', '-p', multiplexing_dir)"),
                 f"unexpected statement in the multiplexing block: {ast.unparse(st)!r}")
    need(all(isinstance(x, (ast.AugAssign, ast.Assign, ast.Expr)) for x in mxif[0].body), "unexpected statement kind in the multiplexing block")
    # the call
    withs = [n for n in body if isinstance(n, ast.With)]
    need(len(withs) == 1 and len(withs[0].items) == 1, "no single inner with-block opening the channel")
    call = withs[0].items[0].context_expr
    need(isinstance(call, ast.Call) and ast.unparse(call.func) == "h.open_channel" and not call.keywords, "the channel is not opened with h.open_channel(...)")
    segs = []
    for a in call.args:
        if isinstance(a, ast.Starred):
            v = a.value
            if isinstance(v, ast.Name):
                need(v.id in ("cmd", "hk_disable", "multiplexing"), f"unexpected *{v.id} in the ssh command line")
                segs.append({"cmd": "CMD", "hk_disable": "HK", "multiplexing": "MX"}[v.id])
            elif isinstance(v, ast.List):
                segs.append(wlist(v, {"str(self.port)": "c_port c"}))
            elif isinstance(v, ast.ListComp):
                need(ast.unparse(v) == "[arg for opt in self.ssh_config for arg in ['-o', opt]]", f"unexpected comprehension {ast.unparse(v)!r}")
                segs.append("flat_map (fun opt => [" + codepoints("-o") + "; opt]) (c_opts c)")
            else:
                raise Untranslatable(f"unexpected starred argument {ast.unparse(a)!r}")
        else:
            segs.append("[" + word(a, {"self.username": "c_user c", "self.hostname": "c_host c"}) + "]")
    need(segs.count("CMD") == 1 and segs.count("HK") == 1 and segs.count("MX") == 1, "cmd, hk_disable and multiplexing are not each passed once")
    sub = {"CMD": f"(match c_auth c with ANone => {a_none} | AKey k => {a_key} | APass pw => {a_pass} end)",
           "HK": f"(if c_ign c then {hk_yes} else {hk_no})",
           "MX": "(if c_mux c then " + " ++ ".join(adds) + " else [])"}
    out.append("(* from tbot/machine/connector/ssh.py: SSHConnector._connect *)")
    out.append("Definition gen_ssh_argv (c : scfg) (muxdir : list N) : list (list N) :=")
    out.append("  (" + "\n  ++ ".join(sub.get(x, x) for x in segs) + ").")
    out.append("")


# ------------------------------------------------------------------ linux/copy.py: the scp command line
def translate_scp(repo, out):
    tree = parse(repo, "tbot/machine/linux/copy.py")
    f = find_func(tree, "_scp_copy")
    kwonly = [a.arg for a in f.args.kwonlyargs]
    need(kwonly == ["local_path", "remote_path", "copy_to_remote", "username", "hostname", "ignore_hostkey", "port", "ssh_config",
                    "authenticator", "use_multiplexing"] and not f.args.args, f"_scp_copy has unexpected parameters {kwonly}")
    ENV = {"str(port)": "c_port c", "username": "c_user c", "hostname": "c_host c", "authenticator.password": "pw",
           "authenticator.get_key_for_host(local_host)": "k", "multiplexing_dir.at_host(local_host)": "muxdir",
           "local_path": "localp", "remote_path.at_host(remote_path.host)": "remotep"}

    def word(e):
        if isinstance(e, ast.Constant) and isinstance(e.value, str):
            return codepoints(e.value)
        src = ast.unparse(e)
        if src in ENV:
            return ENV[src]
        if isinstance(e, ast.JoinedStr):
            parts = []
            for v in e.values:
                if isinstance(v, ast.Constant):
                    parts.append(codepoints(v.value))
                else:
                    need(isinstance(v, ast.FormattedValue) and v.conversion == -1 and v.format_spec is None and ast.unparse(v.value) in ENV,
                         f"scp command line: cannot translate the f-string part {ast.unparse(v)!r}")
                    parts.append(ENV[ast.unparse(v.value)])
            return "(" + " ++ ".join(parts) + ")"
        raise Untranslatable(f"scp command line: cannot translate the word {src!r}")

    def lst(e, cur):
        """a list-valued expression -> Coq term; `cur` = the Coq name currently bound to scp_command"""
        if isinstance(e, ast.Name):
            need(e.id in ("scp_command", "hk_disable"), f"scp command line: unexpected list variable {e.id}")
            return cur if e.id == "scp_command" else "hk"
        if isinstance(e, ast.BinOp) and isinstance(e.op, ast.Add):
            return f"({lst(e.left, cur)} ++ {lst(e.right, cur)})"
        if isinstance(e, ast.ListComp):
            need(ast.unparse(e) == "[arg for opt in ssh_config for arg in ['-o', opt]]", f"unexpected comprehension {ast.unparse(e)!r}")
            return "flat_map (fun opt => [" + codepoints("-o") + "; opt]) (c_opts c)"
        need(isinstance(e, ast.List), f"scp command line: expected a list, got {ast.unparse(e)!r}")
        segs, run = [], []
        for x in e.elts:
            if isinstance(x, ast.Starred):
                if run:
                    segs.append("[" + "; ".join(run) + "]")
                    run = []
                segs.append(lst(x.value, cur))
            else:
                run.append(word(x))
        if run:
            segs.append("[" + "; ".join(run) + "]")
        return "(" + " ++ ".join(segs) + ")" if segs else "[]"

    lets, cur, n = [], None, 0
    final = None
    for st in f.body:
        src = ast.unparse(st)
        if src == "local_host = local_path.host":
            continue
        if isinstance(st, ast.Assign) and ast.unparse(st.targets[0]) == "hk_disable":
            v = st.value
            need(isinstance(v, ast.IfExp) and ast.unparse(v.test) == "ignore_hostkey", "hk_disable is not `[...] if ignore_hostkey else [...]`")
            lets.append(f"let hk := if c_ign c then {lst(v.body, cur)} else {lst(v.orelse, cur)} in")
        elif isinstance(st, ast.Assign) and ast.unparse(st.targets[0]) == "scp_command":
            n += 1
            lets.append(f"let cmd{n} := {lst(st.value, cur)} in")
            cur = f"cmd{n}"
        elif isinstance(st, ast.If) and ast.unparse(st.test) == "use_multiplexing":
            need(not st.orelse and cur is not None, "unexpected else of `if use_multiplexing`")
            acc = cur
            for b in st.body:
                if ast.unparse(b) == "multiplexing_dir = local_host.workdir / '.ssh-multi'":
                    continue
                need(isinstance(b, ast.AugAssign) and ast.unparse(b.target) == "scp_command" and isinstance(b.op, ast.Add),
                     f"unexpected statement in the multiplexing block: {ast.unparse(b)!r}")
                acc = f"({acc} ++ {lst(b.value, cur)})"
            n += 1
            lets.append(f"let cmd{n} := if c_mux c then {acc} else {cur} in")
            cur = f"cmd{n}"
        elif isinstance(st, ast.If) and ast.unparse(st.test).startswith("isinstance(authenticator,"):
            branches, node = {}, st
            while True:
                kind = ast.unparse(node.test.args[1])
                need(len(node.body) == 1, f"the {kind} branch has more than one statement")
                b = node.body[0]
                if isinstance(b, ast.AugAssign):
                    need(ast.unparse(b.target) == "scp_command" and isinstance(b.op, ast.Add), "unexpected augmented assignment in the authenticator chain")
                    branches[kind] = f"({cur} ++ {lst(b.value, cur)})"
                else:
                    need(isinstance(b, ast.Assign) and ast.unparse(b.targets[0]) == "scp_command", f"the {kind} branch does not assign scp_command")
                    branches[kind] = lst(b.value, cur)
                if len(node.orelse) == 1 and isinstance(node.orelse[0], ast.If):
                    node = node.orelse[0]
                    continue
                need(any(isinstance(x, ast.Raise) for x in node.orelse), "the authenticator chain does not end by raising")
                break
            need(set(branches) == {"auth.NoneAuthenticator", "auth.PrivateKeyAuthenticator", "auth.PasswordAuthenticator"}, f"unexpected authenticator kinds {sorted(branches)}")
            n += 1
            lets.append(f"let cmd{n} := match c_auth c with ANone => {branches['auth.NoneAuthenticator']} | AKey k => {branches['auth.PrivateKeyAuthenticator']} "
                        f"| APass pw => {branches['auth.PasswordAuthenticator']} end in")
            cur = f"cmd{n}"
        elif isinstance(st, ast.If) and ast.unparse(st.test) == "copy_to_remote":
            def callargs(body):
                need(len(body) == 1 and isinstance(body[0], ast.Expr) and isinstance(body[0].value, ast.Call)
                     and ast.unparse(body[0].value.func) == "local_host.exec0" and not body[0].value.keywords, "a copy branch is not one local_host.exec0(...)")
                return lst(ast.List(elts=body[0].value.args, ctx=ast.Load()), cur)
            final = f"if to_remote then {callargs(st.body)} else {callargs(st.orelse)}"
        else:
            raise Untranslatable(f"_scp_copy: unexpected statement {src[:80]!r}")
    need(final is not None, "_scp_copy does not end with `if copy_to_remote:`")
    out.append("(* from tbot/machine/linux/copy.py: _scp_copy *)")
    out.append("Definition gen_scp_argv (c : scfg) (muxdir : list N) (to_remote : bool) (localp remotep : list N) : list (list N) :=")
    for l in lets:
        out.append("  " + l)
    out.append("  " + final + ".")
    out.append("")


# ------------------------------------------------------------------ board/uboot.py: UBootShell.env
def translate_ub_env(repo, out):
    tree = parse(repo, "tbot/machine/board/uboot.py")
    f = find_func(tree, "env", "UBootShell")
    body = [n for n in f.body if not (isinstance(n, ast.Expr) and isinstance(n.value, ast.Constant) and isinstance(n.value.value, str))]
    need(len(body) == 3, f"UBootShell.env has {len(body)} statements, expected 3")
    s0, s1, s2 = body
    need(isinstance(s0, ast.If) and ast.unparse(s0.test) == "value is not None" and not s0.orelse and len(s0.body) == 1
         and isinstance(s0.body[0], ast.Expr) and isinstance(s0.body[0].value, ast.Call) and ast.unparse(s0.body[0].value.func) == "self.exec0",
         "UBootShell.env does not start with `if value is not None: self.exec0(...)`")
    a = s0.body[0].value.args
    need(len(a) == 3 and ast.unparse(a[1]) == "var" and ast.unparse(a[2]) == "value" and not s0.body[0].value.keywords, "the set command is not exec0(<cmd>, var, value)")
    setcmd = const_str(a[0], "the set command")
    need(isinstance(s1, ast.Assign) and ast.unparse(s1.targets[0]) == "output" and isinstance(s1.value, ast.Call) and ast.unparse(s1.value.func) == "self.exec0"
         and len(s1.value.args) == 2 and ast.unparse(s1.value.args[1]) == "var" and not s1.value.keywords, "the read-back is not output = self.exec0(<cmd>, var)")
    getcmd = const_str(s1.value.args[0], "the read-back command")
    r = s2.value if isinstance(s2, ast.Return) else None
    need(isinstance(r, ast.Subscript) and ast.unparse(r.value) == "output" and isinstance(r.slice, ast.Slice) and r.slice.step is None
         and isinstance(r.slice.lower, ast.BinOp) and isinstance(r.slice.lower.op, ast.Add) and ast.unparse(r.slice.lower.left) == "len(var)"
         and isinstance(r.slice.lower.right, ast.Constant) and isinstance(r.slice.lower.right.value, int)
         and isinstance(r.slice.upper, ast.UnaryOp) and isinstance(r.slice.upper.op, ast.USub) and isinstance(r.slice.upper.operand, ast.Constant)
         and isinstance(r.slice.upper.operand.value, int) and r.slice.upper.operand.value > 0, "UBootShell.env does not return output[len(var) + j : -k]")
    j, k = r.slice.lower.right.value, r.slice.upper.operand.value
    out.append("(* from tbot/machine/board/uboot.py: UBootShell.env *)")
    out.append("Definition gen_ub_env (var : list N) (value : option (list N)) (sts : list stage) (c : chan) : x0res * chan * list stage :=")
    out.append("  let cont (sts1 : list stage) (c1 : chan) :=")
    out.append(f"    match ub_exec0 [{codepoints(getcmd)}; var] sts1 c1 with")
    out.append(f"    | (X0Ok out, c2, sts2) => (X0Ok (drop_last {k} (skipn (length var + {j}) out)), c2, sts2)")
    out.append("    | r => r")
    out.append("    end in")
    out.append("  match value with")
    out.append("  | None => cont sts c")
    out.append("  | Some v =>")
    out.append(f"      match ub_exec0 [{codepoints(setcmd)}; var; v] sts c with")
    out.append("      | (X0Ok _, c1, sts1) => cont sts1 c1")
    out.append("      | r => r")
    out.append("      end")
    out.append("  end.")
    out.append("")


# ------------------------------------------------------------------ exec0() / test() of the shells
def translate_exec0(repo, out):
    def nodoc(f):
        return [n for n in f.body if not (isinstance(n, ast.Expr) and isinstance(n.value, ast.Constant) and isinstance(n.value.value, str))]

    def cmp_zero(e, op, what):
        need(isinstance(e, ast.Compare) and len(e.ops) == 1 and isinstance(e.ops[0], op) and ast.unparse(e.left) == "retcode"
             and isinstance(e.comparators[0], ast.Constant) and isinstance(e.comparators[0].value, int) and not isinstance(e.comparators[0].value, bool),
             f"{what}: unexpected comparison {ast.unparse(e)!r}")
        return e.comparators[0].value

    out.append("(* exec0() and test() of linux.Bash, linux.Ash and board.UBootShell, over the model's exec *)")
    for rel, cls, name, execfn, with_test in (("tbot/machine/linux/bash.py", "Bash", "bash", "lx_exec", True),
                                              ("tbot/machine/linux/ash.py", "Ash", "ash", "lx_exec", True),
                                              ("tbot/machine/board/uboot.py", "UBootShell", "ub", "ub_exec", False)):
        tree = parse(repo, rel)
        b = nodoc(find_func(tree, "exec0", cls))
        need(len(b) == 3 and ast.unparse(b[0]) in ("retcode, out = self.exec(*args)", "(retcode, out) = self.exec(*args)") and isinstance(b[1], ast.If) and not b[1].orelse
             and len(b[1].body) == 1 and isinstance(b[1].body[0], ast.Raise) and "CommandFailure" in ast.unparse(b[1].body[0])
             and ast.unparse(b[2]) == "return out", f"{cls}.exec0 is not `retcode, out = self.exec(*args); if <cmp>: raise CommandFailure; return out`")
        k = cmp_zero(b[1].test, ast.NotEq, f"{cls}.exec0")
        out.append(f"Definition gen_{name}_exec0 (args : list (list N)) (sts : list stage) (c : chan) : x0res * chan * list stage :=")
        out.append(f"  match {execfn} args sts c with")
        out.append(f"  | (XOk st out, c', sts') => (if negb (st =? {k})%Z then X0Failure st else X0Ok out, c', sts')")
        out.append("  | (r, c', sts') => (X0Other r, c', sts')")
        out.append("  end.")
        if with_test:
            b = nodoc(find_func(tree, "test", cls))
            need(len(b) == 2 and ast.unparse(b[0]) in ("retcode, _ = self.exec(*args)", "(retcode, _) = self.exec(*args)") and isinstance(b[1], ast.Return),
                 f"{cls}.test is not `retcode, _ = self.exec(*args); return <cmp>`")
            k = cmp_zero(b[1].value, ast.Eq, f"{cls}.test")
            out.append(f"Definition gen_{name}_test (args : list (list N)) (sts : list stage) (c : chan) : tres * chan * list stage :=")
            out.append(f"  match {execfn} args sts c with")
            out.append(f"  | (XOk st _, c', sts') => (TBool (st =? {k})%Z, c', sts')")
            out.append("  | (r, c', sts') => (TOther r, c', sts')")
            out.append("  end.")
    out.append("")


def translate(repo):
    out = ["(* GENERATED by tools/translate.py from the current source of the repository -- do not edit *)",
           "From TV Require Import Base Regex Channel LogEvent Session Sh SshScp.", ""]
    translate_hush(repo, out)
    translate_shell(repo, "tbot/machine/linux/bash.py", "Bash", "BASH", out)
    translate_shell(repo, "tbot/machine/linux/ash.py", "Ash", "ASH", out)
    translate_util(repo, out)
    translate_channel(repo, out)
    translate_board(repo, out)
    translate_log(repo, out)
    translate_path(repo, out)
    translate_status(repo, out)
    translate_env(repo, out)
    translate_ssh(repo, out)
    translate_scp(repo, out)
    translate_ub_env(repo, out)
    translate_exec0(repo, out)
    return "\n".join(out) + "\n"


if __name__ == "__main__":
    try:
        text = translate(sys.argv[1])
    except (Untranslatable, SyntaxError, OSError) as e:
        print(f"translate.py: cannot translate: {e}", file=sys.stderr)
        sys.exit(1)
    with open(sys.argv[2], "w") as f:
        f.write(text)
