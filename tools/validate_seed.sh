#!/bin/bash
# usage: validate_seed.sh <dir with patch.diff demo.py> ; validates in a scratch worktree of /repo HEAD
set -u
D=$1
WT=/tmp/wt/validate_$$
git -C /repo worktree add -q --detach $WT HEAD || exit 2
export XDG_RUNTIME_DIR=/tmp/xdg-validate-$$; mkdir -p $XDG_RUNTIME_DIR
cd $WT
PYTHONPATH=$WT timeout 300 /venv/bin/python $D/demo.py >/dev/null 2>&1; clean=$?
if ! git apply $D/patch.diff 2>/dev/null; then echo "APPLY-FAILED"; cd /; git -C /repo worktree remove --force $WT; rm -rf $XDG_RUNTIME_DIR; exit 3; fi
PYTHONPATH=$WT timeout 300 /venv/bin/python $D/demo.py >/dev/null 2>&1; mutated=$?
suite=$(PYTHONPATH=$WT timeout 900 /venv/bin/python -m pytest -q -p no:cacheprovider --timeout=900 2>&1 | grep -E 'FAILED|passed|failed' | tr '\n' ' ')
cd /
git -C /repo worktree remove --force $WT
rm -rf $XDG_RUNTIME_DIR
echo "demo_clean_rc=$clean demo_mutated_rc=$mutated suite='$suite'"
