"""Coq-side plumbing: term emission, building, running correspondence shards, reading results."""
import fcntl
import os
import re
import subprocess
import sys
import time
import hashlib
from concurrent.futures import ThreadPoolExecutor

ROOT = os.path.dirname(os.path.dirname(os.path.abspath(__file__)))
COQ = os.path.join(ROOT, "coq")
CASES = os.path.join(COQ, "cases")
COQ_ARGS = ["-Q", COQ, "TV"]


# ---------------------------------------------------------------- term emission
def nlist(bs):
    """list N literal from bytes / iterable of ints"""
    bs = list(bs)
    if not bs:
        return "(@nil N)"
    return "[" + ";".join(str(int(b)) for b in bs) + "]%N"


def natlist(ns):
    ns = list(ns)
    if not ns:
        return "(@nil nat)"
    return "[" + ";".join(str(int(b)) for b in ns) + "]%nat"


def z(n):
    n = int(n)
    return f"({n})%Z"


def n_(n):
    return f"{int(n)}%N"


def nat(n):
    return f"{int(n)}%nat"


def opt(f, x, ty=None):
    if x is None:
        return f"(@None {ty})" if ty else "None"
    return f"(Some {f(x)})"


def lst(f, xs, ty=None):
    xs = list(xs)
    if not xs:
        return f"(@nil {ty})" if ty else "[]"
    return "[" + "; ".join(f(x) for x in xs) + "]"


def boolean(b):
    return "true" if b else "false"


def V(x):
    """Universal observation value.  int -> VN, bytes -> VB, str -> VB of code points,
    bool -> VN 0/1, None -> VL [], tuple/list -> VL."""
    if isinstance(x, bool):
        return f"(VN {1 if x else 0})"
    if isinstance(x, int):
        return f"(VN {z(x)})"
    if isinstance(x, (bytes, bytearray)):
        return f"(VB {nlist(x)})"
    if isinstance(x, str):
        return f"(VB {nlist(ord(c) for c in x)})"
    if x is None:
        return "(VL [])"
    if isinstance(x, (tuple, list)):
        if not x:
            return "(VL [])"
        return "(VL [" + "; ".join(V(e) for e in x) + "])"
    raise TypeError(f"cannot turn {type(x)} into V")


# ---------------------------------------------------------------- building
class CoqError(Exception):
    pass


def _lock():
    os.makedirs(CASES, exist_ok=True)
    f = open(os.path.join(COQ, ".buildlock"), "w")
    fcntl.flock(f, fcntl.LOCK_EX)
    return f


def build(clean=False, timeout=1500):
    """Full .vo build of the development through coq_makefile + make (never -vos)."""
    lk = _lock()
    try:
        t0 = time.time()
        if clean:
            subprocess.run("rm -f Makefile Makefile.conf .Makefile.d *.vo *.vos *.vok *.glob .*.aux "
                           "theorems/*.vo theorems/*.vos theorems/*.vok theorems/*.glob theorems/.*.aux; rm -rf cases",
                           shell=True, cwd=COQ)
        if not os.path.exists(os.path.join(COQ, "Makefile")) or \
           os.path.getmtime(os.path.join(COQ, "Makefile")) < os.path.getmtime(os.path.join(COQ, "_CoqProject")):
            r = subprocess.run(["coq_makefile", "-f", "_CoqProject", "-o", "Makefile"], cwd=COQ,
                               capture_output=True, text=True)
            if r.returncode != 0:
                raise CoqError("coq_makefile failed: " + r.stderr)
        r = subprocess.run(["timeout", str(timeout), "make", "-j16"], cwd=COQ, capture_output=True, text=True)
        if r.returncode != 0:
            raise CoqError("make failed:\n" + r.stdout[-3000:] + "\n" + r.stderr[-6000:])
        return time.time() - t0
    finally:
        lk.close()


def coqc(path, timeout=900):
    """Compile one file, return (rc, stdout+stderr)."""
    r = subprocess.run(["timeout", str(timeout), "coqc"] + COQ_ARGS + [path], cwd=COQ,
                       capture_output=True, text=True)
    return r.returncode, r.stdout + r.stderr


def forbidden_scan():
    """The grep gate: no Admitted/admit/Axiom/... anywhere in the development."""
    bad = []
    pat = re.compile(r"\b(Admitted|admit|Axiom|Axioms|Parameter|Parameters|Conjecture|Abort All|"
                     r"Unset\s+Guard|bypass_check|type-in-type|impredicative-set|Admit\s+Obligations)\b")
    for d, _, fs in os.walk(COQ):
        if d.endswith("cases"):
            continue
        for f in fs:
            if f.endswith(".v"):
                try:
                    txt = open(os.path.join(d, f)).read()
                except OSError:
                    continue       # a scratch file of a concurrent run (coq/gen/<pid>) that has just been removed
                # strip comments (no nesting subtleties needed: development avoids nested comments with quotes)
                txt2 = re.sub(r"\(\*.*?\*\)", "", txt, flags=re.S)
                for m in pat.finditer(txt2):
                    bad.append(f"{os.path.join(d, f)}: {m.group(0)}")
                for m in re.finditer(r"^\s*(Variable|Variables|Hypothesis|Hypotheses|Context)\b", txt2, flags=re.M):
                    # allowed only inside a Section
                    before = txt2[:m.start()]
                    opened = len(re.findall(r"^\s*Section\s+\w+", before, flags=re.M))
                    closed = len(re.findall(r"^\s*End\s+\w+\s*\.", before, flags=re.M))
                    mods = len(re.findall(r"^\s*Module\s+(Type\s+)?\w+", before, flags=re.M))
                    if opened - (closed - mods) <= 0:
                        bad.append(f"{os.path.join(d, f)}: {m.group(1)} outside a Section")
    return bad


def check_theorem_file(prop, allow_axioms=()):
    """Compile theorems/<prop>.v on its own, parse every Print Assumptions block.
    Returns dict(ok, theorems=[(name, assumptions)], output)."""
    path = os.path.join(COQ, "theorems", f"{prop}.v")
    src = open(path).read()
    names = re.findall(r"^\s*(?:Theorem|Lemma|Corollary)\s+(\w+)", src, flags=re.M)
    printed = re.findall(r"Print\s+Assumptions\s+(\w+)\s*\.", src)
    rc, out = coqc(path)
    res = {"ok": rc == 0, "names": names, "output": out[-4000:], "assumptions": {}, "problems": []}
    if rc != 0:
        res["problems"].append("coqc failed on theorems/%s.v" % prop)
        return res
    for n in names:
        if n not in printed:
            res["ok"] = False
            res["problems"].append(f"theorem {n} has no Print Assumptions")
    # split output into blocks, in order of the Print Assumptions commands
    blocks = re.split(r"(?=Closed under the global context|Axioms:)", out)
    blocks = [b for b in blocks if b.startswith("Closed under") or b.startswith("Axioms:")]
    if len(blocks) != len(printed):
        res["ok"] = False
        res["problems"].append(f"expected {len(printed)} assumption blocks, got {len(blocks)}")
        return res
    for n, b in zip(printed, blocks):
        if b.startswith("Closed under"):
            res["assumptions"][n] = []
        else:
            axs = re.findall(r"^([\w.']+)\s*:", b, flags=re.M)
            res["assumptions"][n] = axs
            for a in axs:
                if a not in allow_axioms:
                    res["ok"] = False
                    res["problems"].append(f"theorem {n} depends on axiom {a}")
    return res


# ---------------------------------------------------------------- correspondence shards
def _parse_natlist(out):
    m = re.search(r"=\s*(\[[^\]]*\])\s*:\s*list nat", out, flags=re.S)
    if not m:
        return None
    body = m.group(1).strip()[1:-1].strip()
    if not body:
        return []
    return [int(x) for x in re.split(r"[;\s]+", body) if x]


def run_shards(tag, imports, model_fn, cases, shard=400, jobs=16, timeout=900):
    """cases: list of (input_term, obs_term) strings.  Returns (mismatch_indices, errors)."""
    os.makedirs(CASES, exist_ok=True)
    files = []
    for si in range(0, len(cases), shard):
        name = f"cases_{tag}_{os.getpid()}_{si // shard}"
        path = os.path.join(CASES, name + ".v")
        with open(path, "w") as f:
            f.write("From TV Require Import Base.\n")
            for imp in imports:
                f.write(f"From TV Require Import {imp}.\n")
            f.write("Definition cases := [\n")
            f.write(";\n".join(f"({a}, {b})" for a, b in cases[si:si + shard]))
            f.write("\n].\n")
            f.write(f"Eval vm_compute in (mismatches {model_fn} cases).\n")
        files.append((si, path))

    def one(item):
        si, path = item
        rc, out = coqc(path, timeout=timeout)
        return si, path, rc, out

    mism, errors = [], []
    with ThreadPoolExecutor(max_workers=jobs) as ex:
        for si, path, rc, out in ex.map(one, files):
            lst_ = _parse_natlist(out) if rc == 0 else None
            if lst_ is None:
                errors.append((si, out[-2000:]))
            else:
                mism.extend(si + i for i in lst_)
            base = path[:-2]
            for ext in (".v", ".vo", ".vos", ".vok", ".glob"):
                try:
                    os.remove(base + ext)
                except OSError:
                    pass
            try:
                os.remove(os.path.join(os.path.dirname(path), "." + os.path.basename(base) + ".aux"))
            except OSError:
                pass
    return sorted(mism), errors


def eval_terms(tag, imports, terms, timeout=300):
    """Evaluate a few terms with vm_compute and return Coq's raw output (for replay files)."""
    os.makedirs(CASES, exist_ok=True)
    path = os.path.join(CASES, f"eval_{tag}_{os.getpid()}.v")
    with open(path, "w") as f:
        f.write("From TV Require Import Base.\n")
        for imp in imports:
            f.write(f"From TV Require Import {imp}.\n")
        for t in terms:
            f.write(f"Eval vm_compute in ({t}).\n")
    rc, out = coqc(path, timeout=timeout)
    base = path[:-2]
    for ext in (".v", ".vo", ".vos", ".vok", ".glob"):
        try:
            os.remove(base + ext)
        except OSError:
            pass
    return rc, out
