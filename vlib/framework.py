"""Generic driver shared by all property checks.

A property module (props/Cxx.py) exposes:
    PROP            = "Cxx"
    ALLOW_AXIOMS    = ()            # std-lib axioms the theorem file may depend on (named in the trusted base)
    TRUSTED         = [...]         # trusted-base strings for the evidence
    ASSUMPTIONS     = [...]
    RULE            = "..."         # how cases are generated / what counts as non-trivial
    SUITES          = [Suite, ...]  # correspondence suites (model vs implementation, + property oracle)
    def extra_obligations(tier) -> list of (name, ok, detail)     (optional)
A Suite provides gen/run/coq_input/oracle/nontrivial/finding_key (see class Suite).
"""
import hashlib
import re
import json
import multiprocessing as mp
import os
import random
import sys
import time
import traceback

from . import coq

ROOT = coq.ROOT
EVID = os.path.join(ROOT, "evidence")
REPLAY = os.path.join(EVID, "replay")


class Suite:
    name = "suite"
    imports = []          # Coq modules (under TV) needed by model_fn
    model_fn = None       # Coq function : input -> V   (None = oracle-only suite, no Coq side)
    shard = 400
    mismatch_is_violation = False   # True: the Coq side is the property's reference model itself

    def gen(self, tier, rng):
        """yield JSON-serialisable cases"""
        return []

    def run(self, case):
        """run the IMPLEMENTATION on the case, return a nested python observation"""
        raise NotImplementedError

    def coq_input(self, case):
        raise NotImplementedError

    def obs_term(self, case, obs):
        return coq.V(obs)

    def oracle(self, case, obs):
        """property predicate evaluated directly on the implementation's observation;
        returns a list of failure descriptions (empty = property holds on this case)"""
        return []

    def nontrivial(self, case, obs):
        return True

    def klass(self, case, obs):
        return "case"

    def finding_key(self, case, obs, failure):
        """a stable key naming the class of a failing input, used to match known_findings.json"""
        return None

    def corpus(self, prop):
        path = os.path.join(ROOT, "corpus", prop, self.name + ".jsonl")
        out = []
        if os.path.exists(path):
            for line in open(path):
                line = line.strip()
                if line and not line.startswith("#"):
                    out.append(json.loads(line))
        return out


_SUITE = None


def _worker(args):
    idx, case = args
    try:
        obs = _SUITE.run(case)
        fails = _SUITE.oracle(case, obs)
        nt = bool(_SUITE.nontrivial(case, obs))
        kl = _SUITE.klass(case, obs)
        term_in = _SUITE.coq_input(case) if _SUITE.model_fn else None
        term_obs = _SUITE.obs_term(case, obs) if _SUITE.model_fn else None
        return idx, obs, fails, nt, kl, term_in, term_obs, None
    except BaseException as e:  # harness error: never fabricate a violation out of it
        return idx, None, [], False, "harness-error", None, None, traceback.format_exc()


def _hash(case):
    return hashlib.sha1(json.dumps(case, sort_keys=True).encode()).hexdigest()


def load_known():
    path = os.path.join(ROOT, "known_findings.json")
    if not os.path.exists(path):
        return []
    return json.load(open(path)).get("findings", [])


def run_suite(prop, suite, tier, seed, only_cases=None, jobs=16):
    """returns dict with counts, mismatches, failures"""
    global _SUITE
    _SUITE = suite
    rng = random.Random(f"{seed}:{prop}:{suite.name}")
    if only_cases is not None:
        cases = list(only_cases)
    else:
        cases = list(suite.corpus(prop)) + list(suite.gen(tier, rng))
    t0 = time.time()
    results = [None] * len(cases)
    if len(cases) > 64 and jobs > 1:
        ctx = mp.get_context("fork")
        with ctx.Pool(jobs) as pool:
            for r in pool.imap_unordered(_worker, list(enumerate(cases)), chunksize=max(1, min(200, len(cases) // (jobs * 4)))):
                results[r[0]] = r
    else:
        for item in enumerate(cases):
            r = _worker(item)
            results[r[0]] = r
    t_impl = time.time() - t0
    harness_errors = [(i, r[7]) for i, r in enumerate(results) if r[7]]
    failures = []       # (idx, failure text)
    seen = set()
    distinct_nt = 0
    klasses = {}
    for i, r in enumerate(results):
        _, obs, fails, nt, kl, _, _, err = r
        klasses[kl] = klasses.get(kl, 0) + 1
        h = _hash(cases[i])
        if h not in seen:
            seen.add(h)
            if nt:
                distinct_nt += 1
        for f in fails:
            failures.append((i, f))
    mism, coq_errors = [], []
    t1 = time.time()
    if suite.model_fn:
        idxs = [i for i, r in enumerate(results) if not r[7]]
        terms = [(results[i][5], results[i][6]) for i in idxs]
        mm, coq_errors = coq.run_shards(f"{prop}_{suite.name}", suite.imports, suite.model_fn, terms,
                                        shard=suite.shard, jobs=jobs)
        mism = [idxs[k] for k in mm]
    t_coq = time.time() - t1
    return dict(suite=suite.name, cases=cases, results=results, evaluations=len(cases), distinct=len(seen),
                distinct_nontrivial=distinct_nt, klasses=klasses, failures=failures, mismatches=mism,
                coq_errors=coq_errors, harness_errors=harness_errors, t_impl=t_impl, t_coq=t_coq)


def write_replay(prop, kind, payload):
    os.makedirs(REPLAY, exist_ok=True)
    blob = json.dumps(payload, sort_keys=True, indent=1, default=repr)
    h = hashlib.sha1(blob.encode()).hexdigest()[:12]
    path = os.path.join(REPLAY, f"{prop}-{kind}-{h}.json")
    with open(path, "w") as f:
        f.write(blob)
    return path


def main_check(mod, tier, seed, replay=None):
    prop = mod.PROP
    t0 = time.time()
    out_lines = []
    violations = []      # (replay_path, suffix)
    known_lines = []
    obligations = []     # (name, ok, detail)
    known = [k for k in load_known() if k.get("property") == prop and k.get("status") == "open"]
    known_keys = {k["key"]: k for k in known}

    suites = {s.name: s for s in mod.SUITES}

    # ---------------- replay mode
    if replay is not None:
        rp = json.load(open(replay))
        if rp.get("kind") == "obligation":
            print(f"replay names a broken obligation ({rp.get('obligation')}); re-running the full quick check")
        else:
            s = suites[rp["suite"]]
            res = run_suite(prop, s, tier, seed, only_cases=[rp["case"]], jobs=1)
            bad = bool(res["failures"]) or bool(res["mismatches"]) or bool(res["coq_errors"])
            print(json.dumps({"case": rp["case"], "observation": repr(res["results"][0][1]),
                              "oracle_failures": [f for _, f in res["failures"]],
                              "model_mismatch": bool(res["mismatches"])}, indent=1, default=repr))
            if bad:
                print(f"VIOLATION property={prop} replay={replay}")
                return 1
            print("replay: property holds on this input now")
            return 0

    # ---------------- 1. Coq build + gates + theorem file
    try:
        bt = coq.build()
        obligations.append(("coq-build", True, f"make -j16 ok in {bt:.1f}s"))
    except coq.CoqError as e:
        obligations.append(("coq-build", False, str(e)[-1500:]))
    bad = coq.forbidden_scan()
    obligations.append(("no-admitted-no-axiom-gate", not bad, "; ".join(bad)))
    thm = {"names": [], "assumptions": {}}
    if obligations[0][1]:
        thm = coq.check_theorem_file(prop, allow_axioms=getattr(mod, "ALLOW_AXIOMS", ()))
        for n in thm["names"]:
            ok = thm["ok"] or (n in thm["assumptions"] and not any(n in p for p in thm["problems"]))
            obligations.append((f"theorem:{n}", bool(ok and thm["assumptions"].get(n) is not None),
                                "assumptions=" + (", ".join(thm["assumptions"].get(n, ["?"])) or "closed")))
        if not thm["ok"]:
            obligations.append((f"theorem-file:{prop}.v", False, "; ".join(thm["problems"]) + "\n" + thm["output"][-1500:]))
    if hasattr(mod, "extra_obligations"):
        obligations.extend(mod.extra_obligations(tier))

    # ---------------- 2. correspondence + property oracle on the implementation
    suite_reports = []
    evaluations = 0
    distinct_nt = 0
    samples = []
    klasses = {}
    all_failures = []
    for s in mod.SUITES:
        res = run_suite(prop, s, tier, seed)
        evaluations += res["evaluations"]
        distinct_nt += res["distinct_nontrivial"]
        for k, v in res["klasses"].items():
            klasses[f"{s.name}:{k}"] = v
        if res["cases"]:
            for idx in (0, len(res["cases"]) // 2, len(res["cases"]) - 1):
                samples.append({"suite": s.name, "case": res["cases"][idx],
                                "impl_observation": repr(res["results"][idx][1])[:400]})
        if res["harness_errors"]:
            i, err = res["harness_errors"][0]
            obligations.append((f"harness:{s.name}", False,
                                f"{len(res['harness_errors'])} harness errors, first on case {i}: {err[-800:]}"))
            sys.stderr.write(f"HARNESS ERROR suite {s.name} case {res['cases'][i]!r}\n{err}\n")
        if s.model_fn:
            ok = not res["mismatches"] and not res["coq_errors"]
            detail = f"{res['evaluations']} cases, {len(res['mismatches'])} mismatches, {len(res['coq_errors'])} shard errors"
            if res["coq_errors"]:
                detail += "; first shard error: " + res["coq_errors"][0][1][-600:]
            obligations.append((f"correspondence:{s.name}", ok, detail))
            for i in res["mismatches"][:5]:
                rc, mo = coq.eval_terms(f"{prop}_dbg", s.imports, [f"{s.model_fn} {res['results'][i][5]}"])
                res.setdefault("mismatch_detail", []).append(
                    {"case": res["cases"][i], "impl": repr(res["results"][i][1]), "model": mo[-1500:]})
        for i, f in res["failures"]:
            all_failures.append((s, res["cases"][i], res["results"][i][1], f))
        if s.mismatch_is_violation:
            for md in res.get("mismatch_detail", [])[:3]:
                all_failures.append((s, md["case"], md["impl"],
                                     "the implementation's observable trace differs from the reference model's: " + md["model"][-600:]))
        suite_reports.append({k: res[k] for k in ("suite", "evaluations", "distinct", "distinct_nontrivial",
                                                  "klasses", "t_impl", "t_coq")}
                             | {"mismatches": len(res["mismatches"]), "oracle_failures": len(res["failures"]),
                                "mismatch_detail": res.get("mismatch_detail", [])})

    # ---------------- 3. verdict
    reported = set()
    for s, case, obs, f in all_failures:
        key = s.finding_key(case, obs, f)
        if key is not None and key in known_keys:
            if key not in reported:
                reported.add(key)
                known_lines.append(f"KNOWN-FINDING: property={prop} {known_keys[key]['what']}")
            continue
        tag = key or re.sub(r'\d+', '#', f)
        if len(violations) >= 5:
            continue
        if tag in reported:
            continue
        reported.add(tag)
        path = write_replay(prop, "input", {"kind": "input", "property": prop, "suite": s.name, "case": case,
                                            "impl_observation": repr(obs), "failure": f, "finding_key": key})
        violations.append((path, ""))
    broken = [(n, d) for n, ok, d in obligations if not ok]
    if broken and not violations:
        # an obligation broke but the search over this run's inputs found no failing input
        # (known findings do not explain a broken obligation: the models already account for them)
        path = write_replay(prop, "obligation", {"kind": "obligation", "property": prop,
                                                 "obligation": [n for n, _ in broken],
                                                 "detail": [d for _, d in broken],
                                                 "suites": suite_reports})
        violations.append((path, " no-failing-input-found"))

    wall = time.time() - t0
    trusted = list(getattr(mod, "TRUSTED", []))
    for n, ax in thm.get("assumptions", {}).items():
        trusted.append(f"Print Assumptions {n}: " + (", ".join(ax) if ax else "Closed under the global context"))
    ev = {
        "property_id": prop, "tier": tier, "seed": seed, "level": "proof",
        "coverage": {
            "obligations": len(obligations), "discharged": sum(1 for _, ok, _ in obligations if ok),
            "checker_cmd": "coq_makefile -f _CoqProject -o Makefile && make -j16 (coqc 8.16.1, full .vo) ; coqc theorems/%s.v ; coqc cases_*.v (vm_compute)" % prop,
            "trusted_base": trusted,
            "obligation_list": [{"name": n, "ok": ok, "detail": d[:600]} for n, ok, d in obligations],
            "evaluations": evaluations, "distinct_nontrivial": distinct_nt,
            "rule": getattr(mod, "RULE", ""), "samples": samples[:9],
            "traces_validated_against_impl": evaluations,
            "distributions": klasses, "suites": suite_reports,
            "known_findings_seen": sorted(k for k in reported if k in known_keys),
        },
        "assumptions": list(getattr(mod, "ASSUMPTIONS", [])),
        "wall_s": round(wall, 2), "violations": len(violations),
    }
    os.makedirs(EVID, exist_ok=True)
    with open(os.path.join(EVID, f"{prop}.json"), "w") as f:
        json.dump(ev, f, indent=1, default=repr)
    for l in known_lines:
        print(l)
    nob = len(obligations)
    print(f"{prop} [{tier}] obligations {ev['coverage']['discharged']}/{nob}, cases {evaluations} "
          f"(distinct non-trivial {distinct_nt}), {wall:.1f}s")
    for n, ok, d in obligations:
        if not ok:
            print(f"  BROKEN {n}: {d[:1200]}")
    for path, suffix in violations:
        print(f"VIOLATION property={prop} replay={path}{suffix}")
    return 1 if violations else 0
