"""The translated part of the model: tools/translate.py regenerates coq/gen/<pid>/Gen.v from the current source of
/repo, and coq/genproofs/ProofGen.v (hand-written) is re-checked against it.  Returned as obligations of the checks
whose theorems rest on the translated definitions (C01, C09, C19)."""
import os
import re
import shutil
import subprocess
import sys

from . import coq

THEOREMS = ["gen_hush_quote_is_the_model", "gen_blacklists_are_the_model", "gen_prompts_are_the_model",
            "gen_probe_and_sanity_are_the_model", "gen_probe_loop_is_the_model", "gen_init_lines_are_the_model", "gen_channel_constants_are_the_model",
            "gen_board_constants_are_the_model", "gen_sanitize_is_the_model",
            "gen_write_bytes_constants_are_the_model", "gen_status_command_is_the_model", "gen_env_lines_are_the_model", "gen_ssh_argv_is_the_model", "gen_scp_argv_is_the_model", "gen_ub_env_is_the_model", "gen_exec0_and_test_are_the_model"]


def obligations(only=None):
    """[(name, ok, detail)]: the translation itself, then one obligation per theorem of ProofGen.v"""
    want = [t for t in THEOREMS if only is None or t in only]
    d = os.path.join(coq.COQ, "gen", str(os.getpid()))
    os.makedirs(d, exist_ok=True)
    try:
        gen = os.path.join(d, "Gen.v")
        r = subprocess.run([sys.executable, os.path.join(coq.ROOT, "tools", "translate.py"), "/repo", gen], capture_output=True, text=True)
        if r.returncode != 0:
            msg = (r.stderr or r.stdout).strip()[-600:]
            return [("translate:repo-source->Gen.v", False, msg)] + [(f"theorem:{t}", False, "not checked: the source could not be translated") for t in want]
        out = [("translate:repo-source->Gen.v", True, "tools/translate.py (python ast, fail-closed): uboot._hush_quote/_hush_find_unsafe, "
                "bash.py/ash.py TBOT_PROMPT + _write_blacklist + the lines of _init_shell, util.py probe and sanity check")]
        args = ["-Q", coq.COQ, "TV", "-Q", d, "TVG"]
        r = subprocess.run(["timeout", "300", "coqc"] + args + [gen], cwd=d, capture_output=True, text=True)
        if r.returncode != 0:
            return out + [(f"theorem:{t}", False, "Gen.v does not compile: " + (r.stdout + r.stderr)[-600:]) for t in want]
        shutil.copy(os.path.join(coq.COQ, "genproofs", "ProofGen.v"), os.path.join(d, "ProofGen.v"))
        r = subprocess.run(["timeout", "600", "coqc"] + args + [os.path.join(d, "ProofGen.v")], cwd=d, capture_output=True, text=True)
        text = r.stdout + r.stderr
        src = open(os.path.join(d, "ProofGen.v")).read()
        # which theorems were reached and closed: coqc stops at the first error
        closed = len(re.findall(r"^Closed under the global context", text, flags=re.M))
        printed = re.findall(r"Print\s+Assumptions\s+(\w+)\s*\.", src)
        bad = [a for a in re.findall(r"^Axioms:", text, flags=re.M)]
        for i, t in enumerate(printed):
            if t not in want:
                continue
            if i < closed and not bad:
                out.append((f"theorem:{t}", True, "re-proved against the Gen.v generated from the current source; assumptions=closed"))
            else:
                err = text[text.find("Error"):][:500] if "Error" in text else text[-300:]
                out.append((f"theorem:{t}", False, "ProofGen.v no longer checks against the regenerated Gen.v: " + err))
        return out
    finally:
        shutil.rmtree(d, ignore_errors=True)
